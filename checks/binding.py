#!/usr/bin/env python3
"""binding.py: demonstrates that the trace specification is BOUND to what it is shown -- it is not a length check.

A clean history is recorded from the library, accepted, and then one recorded field is corrupted at a time; every
corrupted log must be rejected at exactly the corrupted line.  Exit 0 when all corruptions are rejected there,
1 otherwise.  (Stand-alone tool, not a property check: it says something about the machinery, not about MASA.)"""
import copy, sys
from common import *
import gen

rng = random.Random(7)
wd = workdir('binding')
script = [['init', 'd', 'cxx', 'a', 'euler_2d'], ['init', 'd', 'cxx', 'b', 'heateq_1d_steady_const'], ['list', 'd', 'cxx'],
          ['select', 'd', 'cxx', 'a'], ['setp', 'd', 'cxx', 'u_0', hexf(1.75)], ['getp', 'd', 'cxx', 'u_0'], ['getp', 'd', 'cxx', 'L']] + [['getp', 'd', 'cxx', k] for k in CAT['euler_2d']['pars'] if k not in ('u_0', 'L')] + [
          ['sanity', 'd', 'cxx'], ['dispp', 'd', 'cxx'], ['name', 'd', 'cxx'], ['dim', 'd', 'cxx'],
          ['eval', 'd', 'cxx', 'source_rho', 'SS', hexf(0.375), hexf(0.625)], ['eval', 'd', 'cxx', 'source_rho', 'SS', hexf(0.375), hexf(0.625)],
          ['eval', 'd', 'cxx', 'source_t', 'SS', hexf(0.375), hexf(0.625)],
          ['select', 'd', 'cxx', 'b'], ['purge', 'd', 'cxx'], ['sanity', 'd', 'cxx'], ['initp', 'd', 'cxx'], ['getp', 'd', 'cxx', 'nope'],
          ['select', 'd', 'cxx', 'zz'], ['name', 'd', 'cxx']]
base = Execution(script, variant='exc', label='binding')
base.oracle = True
run_executions([base], wd)
n, rej = validate_executions([base], wd, relax=(), oracle=True)
if rej:
    print('the clean history is rejected:', rej[0].reason, rej[0].line_no, json.dumps(rej[0].event)[:300]); sys.exit(1)
print('clean history accepted: %d lines' % n)


def find(op, nth=0, **kw):
    hits = [i for i, e in enumerate(base.events) if e.get('op') == op and all(e.get(k) == v for k, v in kw.items())]
    return hits[nth]


def bump(h):       # another double, one unit in the last place away
    v = float.fromhex(h); import math
    return hexf(math.nextafter(v, math.inf))


C = []
C.append(('getp returns another value than was set', find('getp', k='u_0'), lambda e: e.update(ret=hexf(1.5))))
C.append(('sanity status flipped', find('sanity', 0), lambda e: e.update(ret=1)))
C.append(('list misses a handle', find('list'), lambda e: e.update(out=e['out'][:1])))
C.append(('name of the selected solution', find('name', 0), lambda e: e.update(v='euler_3d')))
C.append(('dimension', find('dim'), lambda e: e.update(v=3)))
C.append(('live-object counter', find('init', 1), lambda e: e.update(live=[3, 0])))
C.append(('repeated evaluation differs in the last bit (memo)', find('eval', 1), lambda e: e.update(ret=bump(e['ret']))))
C.append(('evaluation off by 1e-9 relative (oracle)', find('eval', 0), lambda e: e.update(ret=hexf(float.fromhex(e['ret']) * (1 + 1e-9)))))
C.append(('unprovided evaluator returns a plausible number', find('eval', 2), lambda e: e.update(ret=hexf(0.5), tags=[])))
C.append(('purged parameter not reported by sanity', find('sanity', 1), lambda e: e.update(ret=0, tags=[], warn=[])))
C.append(('unknown parameter name answered with a value', find('getp', k='nope'), lambda e: e.update(ret=hexf(1.0))))
C.append(('select of an unknown handle returns normally', find('select', h='zz') if any(e.get('h') == 'zz' for e in base.events) else find('select', 2),
          lambda e: e.update(end='ret', ret=0, tags=[])))
C.append(('displayed value', find('dispp'), lambda e: [o for o in e['out'] if o['k'] == 'u_0'][0].update(v='3.25')))
bad = 0
for what, i, f in C:
    x = copy.copy(base); x.events = copy.deepcopy(base.events); x.recorded = True
    f(x.events[i])
    n, rej = validate_executions([x], wd, relax=(), oracle=True, max_rejections=1)
    ok = bool(rej) and rej[0].line_no == i
    print('%-60s line %2d: %s' % (what, i, ('rejected there (%s)' % rej[0].reason) if ok else 'NOT rejected there: %s' % ([(r.line_no, r.reason) for r in rej])))
    bad += 0 if ok else 1
shutil.rmtree(wd, ignore_errors=True)
print('binding: %d corruptions, %d not rejected' % (len(C), bad))
sys.exit(1 if bad else 0)
