#!/usr/bin/env python3
"""Shared machinery of the checks: run histories on the real library, validate the logs against the
TLA+ trace specification with TLC, attribute rejections, handle known findings, write evidence."""
import json, os, random, re, shutil, subprocess, sys, time
HERE = os.path.dirname(os.path.abspath(__file__))
VERIF = os.path.dirname(HERE)
sys.path.insert(0, os.path.join(VERIF, 'harness'))
import mk
from mk import InfraError

SPEC = os.path.join(VERIF, 'spec')
CATALOG = json.load(open(os.path.join(SPEC, 'catalog.json')))
CAT = {e['name']: e for e in CATALOG}
NONFIX = [e['name'] for e in CATALOG if not e['fixture']]
KNOWN = json.load(open(os.path.join(VERIF, 'known_findings.json')))


def seed():
    return int(os.environ.get('VERIF_SEED', '1'))


def tier(argv_tier=None):
    return os.environ.get('VERIF_TIER') or argv_tier or 'quick'


def workdir(tag):
    root = os.path.join(mk.CACHE, 'work')
    try:        # work directories left behind by runs that were killed: anything older than 12 hours goes
        for n in os.listdir(root):
            p = os.path.join(root, n)
            if time.time() - os.path.getmtime(p) > 12 * 3600:
                shutil.rmtree(p, ignore_errors=True)
    except OSError:
        pass
    d = os.path.join(mk.CACHE, 'work', '%s-%d' % (tag, os.getpid()))
    shutil.rmtree(d, ignore_errors=True)
    os.makedirs(d)
    return d


# ------------------------------------------------------------------------------------------------
# number formatting: exact hex floats
# ------------------------------------------------------------------------------------------------
def hexf(x):
    return float(x).hex()


# ------------------------------------------------------------------------------------------------
# executing histories
# ------------------------------------------------------------------------------------------------
class Execution:
    """One process run of the driver on one script."""
    def __init__(self, script, variant='exc', alloc=False, fill=None, label=''):
        self.script, self.variant, self.alloc, self.fill, self.label = script, variant, alloc, fill, label
        self.events, self.rc, self.err = None, None, None
        self.oracle = None     # None: as the check says; True/False: judge this execution's values with the oracle or not
        self.group = None      # executions of one group stay in one TLC batch and share the memo (reset keeps it)


def run_executions(execs, wd, jobs=16):
    """Run every execution (its own process); fills .events/.rc."""
    from concurrent.futures import ThreadPoolExecutor
    exes = {}
    for e in execs:
        k = (e.variant, e.alloc)
        if k not in exes and not getattr(e, 'recorded', False):
            exes[k] = mk.build_driver(e.variant, e.alloc)

    def one(ie):
        i, e = ie
        if getattr(e, 'recorded', False):       # a trace recorded elsewhere (the repository's own programs through the shim)
            return e
        log = os.path.join(wd, 'x%05d.ndjson' % i)
        e.rc, e.events, e.err = mk.run_driver(exes[(e.variant, e.alloc)], e.script, log, fill=e.fill)
        e.log = log
        return e
    with ThreadPoolExecutor(max_workers=jobs) as ex:
        list(ex.map(one, enumerate(execs)))
    return execs


# ------------------------------------------------------------------------------------------------
# trace validation with TLC
# ------------------------------------------------------------------------------------------------
JAVA_CP = [SPEC]   # MasaReal.class etc. live next to the modules


def tlc_validate(log_path, build, relax=(), oracle=False, timeout=900, cfg='MasaTrace.cfg', extra_env=None, heap='3g'):
    """Returns (accepted, matched_lines, output)."""
    env = {'TRACE': log_path, 'BUILD': build, 'ORACLE': '1' if oracle else '0'}
    for g in relax:
        env['RELAX_' + g.upper()] = '1'
    if extra_env:
        env.update(extra_env)
    rc, out = mk.tlc('MasaTrace.tla', cfg, SPEC, env=env, workers=1, timeout=timeout, classpath_extra=JAVA_CP, heap=heap)
    m = re.search(r'The depth of the complete state graph search is (\d+)', out)
    depth = int(m.group(1)) if m else None
    if 'Model checking completed. No error has been found' in out and depth is not None:
        return True, depth - 1, out
    if 'Postcondition Accepted' in out and 'is false' in out and depth is not None:
        return False, depth - 1, out
    # an invariant or action property of Masa.tla was violated by an accepted prefix
    m2 = re.search(r'(Invariant (\w+) is violated|Action property (\w+) is violated)', out)
    if m2:
        states = re.findall(r'^State (\d+):', out, flags=re.M)
        n = max(int(s) for s in states) if states else 1
        return False, n - 2, out + '\nPROPERTY-VIOLATED %s' % (m2.group(2) or m2.group(3))
    open('/tmp/tlc_fail.log','w').write(out); raise InfraError('TLC failed (rc=%s):\n%s' % (rc, out[-3000:]))


class Rejection:
    def __init__(self, exe, line_no, event, reason, tlc_out=''):
        self.exe, self.line_no, self.event, self.reason, self.tlc_out = exe, line_no, event, reason, tlc_out

    def key(self):
        e = self.event or {}
        return {'op': e.get('op'), 'reason': self.reason}


RELAX_GROUPS = ['live', 'memo', 'value', 'acc']


def validate_executions(execs, wd, relax=(), oracle=False, batch_lines=4000, jobs=12, timeout=3600, max_rejections=8, extra_env=None):
    """Concatenate executions (reset-separated) into batches, validate each batch with one TLC run.
    On rejection: attribute (which relax group makes the line acceptable), record, continue after
    the offending execution.  Returns (n_lines_validated, rejections)."""
    from concurrent.futures import ThreadPoolExecutor
    # group by build
    batches, cur, cur_n, cur_b = [], [], 0, None
    for e in execs:
        n = len(e.events) + 1
        same_group = cur and e.group is not None and cur[-1].group == e.group
        orc = oracle if e.oracle is None else (e.oracle and oracle)
        if cur and not same_group and (cur_n + n > (batch_lines if not orc else min(batch_lines, 500)) or (e.variant, orc) != cur_b):
            batches.append(cur); cur, cur_n = [], 0
        cur.append(e); cur_n += n; cur_b = (e.variant, orc)
    if cur:
        batches.append(cur)

    def build_of(v):
        return 'exit' if v == 'exit' else 'exc'

    stop = {'n': 0}

    def do_batch(ib):
        bi, batch = ib
        rejs, lines_ok = [], 0
        pending = list(batch)
        rnd = 0
        while pending:
            if stop['n'] >= max_rejections:
                break
            rnd += 1
            path = os.path.join(wd, 'b%04d_%d.ndjson' % (bi, rnd))
            owners = []
            with open(path, 'w') as f:
                for k, e in enumerate(pending):
                    if k:
                        keep = e.group is not None and pending[k - 1].group == e.group
                        f.write('{"op":"reset","keep":%s}\n' % ('true' if keep else 'false')); owners.append((None, None))
                    for j, ev in enumerate(e.events):
                        f.write(json.dumps(ev) + '\n'); owners.append((k, j))
            borc = oracle if pending[0].oracle is None else (pending[0].oracle and oracle)
            ok, matched, out = tlc_validate(path, build_of(pending[0].variant), relax, borc, timeout, extra_env=extra_env)
            if ok:
                lines_ok += len(owners)
                break
            # rejection at line matched+1 (1-based)
            k, j = owners[matched] if matched < len(owners) else (len(pending) - 1, None)
            if k is None:      # cannot happen: reset is always accepted
                raise InfraError('reset line rejected')
            lines_ok += matched
            exe = pending[k]
            ev = exe.events[j] if j is not None else None
            reason = 'structural'
            mprop = re.search(r'PROPERTY-VIOLATED (\w+)', out)
            if mprop:
                reason = 'property:' + mprop.group(1)
            else:
                # attribution: which relaxation lets this very line through?
                for g in RELAX_GROUPS:
                    if g in relax:
                        continue
                    single = os.path.join(wd, 'b%04d_%d_%s.ndjson' % (bi, rnd, g))
                    with open(single, 'w') as f:
                        for ev2 in exe.events[:j + 1]:
                            f.write(json.dumps(ev2) + '\n')
                    ok2, m2, _ = tlc_validate(single, build_of(exe.variant), tuple(relax) + (g,), borc, timeout, extra_env=extra_env)
                    if ok2 or m2 > j:
                        reason = g
                        break
            rejs.append(Rejection(exe, j, ev, reason, out[-1500:]))
            stop['n'] += 1
            pending = pending[k + 1:]
        return lines_ok, rejs
    total, allr = 0, []
    with ThreadPoolExecutor(max_workers=jobs) as ex:
        for n, r in ex.map(do_batch, enumerate(batches)):
            total += n; allr += r
    return total, allr


# ------------------------------------------------------------------------------------------------
# evidence / reporting
# ------------------------------------------------------------------------------------------------
def write_evidence(pid, tier_, level, coverage, assumptions, wall, violations):
    evd = os.environ.get('VERIF_EVIDENCE_DIR') or os.path.join(VERIF, 'evidence')   # (the seed sweep writes elsewhere)
    os.makedirs(evd, exist_ok=True)
    ev = dict(property_id=pid, tier=tier_, seed=seed(), level=level, coverage=coverage,
              assumptions=assumptions, wall_s=round(wall, 2), violations=violations)
    with open(os.path.join(evd, pid + '.json'), 'w') as f:
        json.dump(ev, f, indent=1, default=str)


REPLAY_CTX = {}        # how the check at hand validates (relaxation groups, oracle, known-deviation keys, tolerance): saved with every replay


def save_replay(pid, name, exe, extra=None):
    d = os.path.join(os.environ.get('VERIF_EVIDENCE_DIR') or VERIF, 'replays')
    os.makedirs(d, exist_ok=True)
    path = os.path.join(d, '%s-%s.json' % (pid, name))
    json.dump(dict(property=pid, variant=exe.variant, alloc=exe.alloc, fill=exe.fill, label=exe.label,
                   script=exe.script, suite_src=getattr(exe, 'suite_src', None), suite_args=getattr(exe, 'suite_args', None),
                   oracle=bool(REPLAY_CTX.get('oracle')) and bool(getattr(exe, 'oracle', True)),
                   relax=list(REPLAY_CTX.get('relax', ('live',))), known=REPLAY_CTX.get('known'), kbits=REPLAY_CTX.get('kbits'),
                   extra=extra), open(path, 'w'), indent=1)
    return path


def known_for(pid):
    return [k for k in KNOWN if k.get('property') == pid and k.get('status') == 'known']
