#!/usr/bin/env python3
"""The repository's own tests and examples, UNMODIFIED, as a source of histories: each program is compiled from
/repo's working tree and linked against the freshly built library through the tracing shim
(harness/gen_suite_shim.py: GNU ld --wrap on every public entry point), run, and its log -- every public call with
arguments and outcome -- is validated by the trace specification like any other history, with the numeric oracle
on.  This turns the suite's weak assertions ("not NaN") into complete ones at the suite's own inputs."""
import glob, json, os, random, shutil, subprocess, sys
from common import *


def build_shim(variant='exc'):
    lib = mk.build_lib(variant)
    key = mk._hash(os.path.join(mk.HERE, 'gen_suite_shim.py'), os.path.join(mk.HERE, 'suite_rt.h'), os.path.join(mk.HERE, 'driver.cpp'),
                   os.path.join(mk.HERE, 'abi_extract.py'), extra=lib)
    out = os.path.join(mk.CACHE, 'shim-%s-%s' % (variant, key))
    if os.path.exists(os.path.join(out, 'ok')):
        return lib, out
    tmp = out + '.tmp%d' % os.getpid()
    shutil.rmtree(tmp, ignore_errors=True); os.makedirs(tmp)
    r = mk.sh([sys.executable, os.path.join(mk.HERE, 'gen_dispatch.py'), mk.REPO, os.path.join(tmp, 'dispatch_gen.h')])
    r2 = mk.sh([sys.executable, os.path.join(mk.HERE, 'gen_suite_shim.py'), os.path.join(lib, 'libmasa.a'), os.path.join(tmp, 'suite_shim.cpp'),
                os.path.join(tmp, 'suite.wrapflags'), mk.REPO])
    if r.returncode or r2.returncode:
        raise InfraError('shim generation failed: ' + r.stderr + r2.stderr)
    r3 = mk.sh(['g++', '-O0', '-DMASA_VERIF', '-I' + tmp, '-I' + os.path.join(lib, 'include'), '-I' + mk.HERE, '-c',
                os.path.join(tmp, 'suite_shim.cpp'), '-o', os.path.join(tmp, 'suite_shim.o')])
    if r3.returncode:
        raise InfraError('shim compile failed: ' + r3.stderr[-3000:])
    open(os.path.join(tmp, 'ok'), 'w').write('ok')
    try:
        os.rename(tmp, out)
    except OSError:
        shutil.rmtree(tmp, ignore_errors=True)
    return lib, out


def programs():
    src = []
    for d in ('tests', 'examples'):
        for f in sorted(glob.glob(os.path.join(mk.REPO, d, '*.cpp')) + glob.glob(os.path.join(mk.REPO, d, '*.c'))):
            b = os.path.basename(f)
            if b.startswith('ad_') or b in ('ns3d_incompbouss.cpp', 'Euler_3d_source.cpp'):      # MetaPhysicL-gated / not a program
                continue
            src.append(f)
    return src


def run_suite(wd, variant='exc', max_evals=300, rng=None, jobs=12, only=None, force_seed=None):
    """Returns (executions, skipped): one Execution per program that could be built and produced a log."""
    from concurrent.futures import ThreadPoolExecutor
    lib, shim = build_shim(variant)
    import zlib
    base = rng.randint(0, 10**9) if rng is not None else 1
    progs = [f for f in programs() if only is None or os.path.relpath(f, mk.REPO) in only]
    # per-program seed: a function of the run's seed and the program only, so that a replay of ONE program selects the
    # same evaluations as the run that saved it
    seeds = {f: zlib.crc32(('%d:%s' % (base, os.path.relpath(f, mk.REPO))).encode()) for f in progs}

    def one(f):
        b = os.path.relpath(f, mk.REPO).replace('/', '__')       # tests/ and examples/ share base names
        obj = os.path.join(wd, b + '.o'); exe = os.path.join(wd, b + '.exe'); log = os.path.join(wd, b + '.ndjson')
        cc = 'g++' if f.endswith('.cpp') else 'gcc'
        r = mk.sh([cc, '-O0', '-w', '-I' + os.path.join(lib, 'include'), '-I' + os.path.dirname(f), '-I' + os.path.join(mk.REPO, 'src'), '-c', f, '-o', obj])
        if r.returncode:
            return (f, None, 'compile: ' + r.stderr[-300:])
        r = mk.sh(['g++', obj, os.path.join(shim, 'suite_shim.o'), os.path.join(lib, 'libmasa.a'), '@' + os.path.join(shim, 'suite.wrapflags'), '-lm', '-o', exe])
        if r.returncode:
            return (f, None, 'link: ' + r.stderr[-300:])
        try:
            rr = subprocess.run([exe], cwd=wd, env=dict(os.environ, MASA_TRACE_LOG=log), stdin=subprocess.DEVNULL, stdout=subprocess.DEVNULL, stderr=subprocess.DEVNULL, timeout=20)
            rc = rr.returncode
        except subprocess.TimeoutExpired:
            rc = -9
        if not os.path.exists(log):
            return (f, None, 'no public call made')
        ev = [json.loads(l) for l in open(log) if l.strip()]
        # evaluations do not change the state: a random subset of them is validated, every other call is kept
        lr = random.Random(seeds[f] if force_seed is None else force_seed)
        idx = [i for i, e in enumerate(ev) if e.get('op') == 'eval' and e.get('end') == 'ret']
        drop = set(lr.sample(idx, len(idx) - max_evals)) if len(idx) > max_evals else set()
        kept = [e for i, e in enumerate(ev) if i not in drop]
        ex = Execution([], variant=variant, label='suite:' + os.path.relpath(f, mk.REPO))
        ex.events, ex.rc, ex.err, ex.log = kept, rc, '', log
        ex.total_events, ex.total_evals = len(ev), len(idx)
        ex.oracle = True
        ex.recorded = True                  # run_executions must not run it again
        ex.ok_rc = (0, 1, 77)               # a test may fail or skip; what is judged is the trace
        ex.suite_src = os.path.relpath(f, mk.REPO)
        ex.suite_args = dict(seed=seeds[f], max_evals=max_evals)
        ex.sols = set(''.join(chr(c) for c in e.get('sc', [])).lower().replace('-', '').replace(' ', '') for e in ev if e.get('op') == 'init')
        return (f, ex, None)
    execs, skipped = [], []
    with ThreadPoolExecutor(max_workers=jobs) as tp:
        for f, ex, why in tp.map(one, progs):
            if ex is None:
                skipped.append((os.path.relpath(f, mk.REPO), why))
            else:
                execs.append(ex)
    return execs, skipped


_CACHE = {}


def suite_executions(sols=None, max_evals=200, seed_=1):
    """The traced suite, once per process; sols: keep the programs that initialise one of these solutions."""
    if 'x' not in _CACHE:
        wd = workdir('suite')
        _CACHE['x'] = run_suite(wd, max_evals=max_evals, rng=random.Random(seed_))
        shutil.rmtree(wd, ignore_errors=True)
    ex, sk = _CACHE['x']
    return [e for e in ex if sols is None or (e.sols & set(sols))], sk


if __name__ == '__main__':
    wd = workdir('suite')
    ex, sk = run_suite(wd, max_evals=int(sys.argv[1]) if len(sys.argv) > 1 else 300)
    print('programs traced: %d, skipped: %s' % (len(ex), sk))
    print('events: %d total, %d kept' % (sum(e.total_events for e in ex), sum(len(e.events) for e in ex)))
    kf = os.path.join(wd, 'known.json')
    json.dump([[k['match']['sol'], k['match']['fn']] for k in KNOWN if k.get('status') == 'known' and 'sol' in k.get('match', {})], open(kf, 'w'))
    n, rej = validate_executions(ex, wd, relax=('memo',), oracle=True, batch_lines=600, max_rejections=100, extra_env={'KNOWN': kf})
    print('validated lines', n, 'rejections', len(rej))
    for r in rej:
        print(r.exe.label, r.reason, r.line_no, json.dumps(r.event)[:400])
