#!/usr/bin/env python3
"""replay_one.py <replay.json>: re-run one saved history on the current tree and re-validate it the way the check
that saved it did (same relaxation groups, oracle, known-deviation keys and tolerance)."""
import sys
from common import *
r = json.load(open(sys.argv[1]))
wd = workdir('replay')
if r.get('suite_src'):            # one of the repository's own programs, traced through the shim
    import suite
    sa = r.get('suite_args') or {}
    ex, sk = suite.run_suite(wd, only=[r['suite_src']], max_evals=sa.get('max_evals', 200), force_seed=sa.get('seed'))
    if not ex:
        print('ERROR cannot re-run', r['suite_src'], sk); sys.exit(2)
    e = ex[0]
else:
    e = Execution(r['script'], variant=r['variant'], alloc=r.get('alloc', False), fill=r.get('fill'), label=r.get('label', 'replay'))
    e.oracle = bool(r.get('oracle'))
run_executions([e], wd)
relax = tuple(r.get('relax') or ('live',))
env = {}
if r.get('known') is not None:
    kf = os.path.join(wd, 'known.json'); json.dump(r['known'], open(kf, 'w')); env['KNOWN'] = kf
if r.get('kbits'):
    env['KBITS'] = str(r['kbits'])
n, rej = validate_executions([e], wd, relax=relax, oracle=bool(r.get('oracle')), extra_env=env or None, batch_lines=600)
for x in rej:
    print('rejected at line %s (%s): %s' % (x.line_no, x.reason, json.dumps(x.event)[:600]))
    print('VIOLATION property=%s replay=%s' % (r['property'], sys.argv[1]))
print('accepted' if not rej else 'rejected', n, 'lines; rc', e.rc)
shutil.rmtree(wd, ignore_errors=True)
sys.exit(1 if rej else 0)
