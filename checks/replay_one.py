#!/usr/bin/env python3
"""replay_one.py <replay.json>: re-run one saved history on the current tree and re-validate it."""
import sys
from common import *
r = json.load(open(sys.argv[1]))
e = Execution(r['script'], variant=r['variant'], alloc=r.get('alloc', False), fill=r.get('fill'), label=r.get('label', 'replay'))
wd = workdir('replay')
run_executions([e], wd)
relax = tuple(r.get('relax', ('live',)))
n, rej = validate_executions([e], wd, relax=relax, oracle=bool(r.get('oracle')))
for x in rej:
    print('rejected at line %s (%s): %s' % (x.line_no, x.reason, json.dumps(x.event)[:600]))
    print('VIOLATION property=%s replay=%s' % (r['property'], sys.argv[1]))
print('accepted' if not rej else 'rejected', n, 'lines; rc', e.rc)
sys.exit(1 if rej else 0)
