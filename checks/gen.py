#!/usr/bin/env python3
"""History generators: seeded random call sequences over the concrete catalogue, one family per
property.  A generator only decides *what to call*; it never judges a result -- every line of every
log is judged by the TLA+ trace specification."""
import math, random
from common import *

MARKER = -12345.67
API = None


def api():
    global API
    if API is None:
        API = mk.api_json('exc')
    return API


def all_overloads():
    return [(e['fn'], e['sig']) for e in api()['cxx']]


def c_overloads():
    return set((e['fn'], e['sig']) for e in api()['c'])


FULL_MANTISSA = [False]


def exact_double(rng, lo, hi):
    """a double (exactly representable in both precisions); by default with a short mantissa (prints short),
    with FULL_MANTISSA[0] a generic 53-bit one (sums and products of such inputs are inexact in double)"""
    x = rng.uniform(lo, hi)
    if FULL_MANTISSA[0]:
        return x
    return round(x * 1024) / 1024.0


def widen(rng, h):
    """a long double that is NOT a double: the hexadecimal literal of a double with 11 more mantissa bits appended"""
    if 'p' not in h or '.' not in h:
        return h
    m, e = h.split('p')
    return m + '%02x%x' % (rng.getrandbits(8) | 1, 2 * rng.getrandbits(3)) + 'p' + e


def rand_value(rng):
    r = rng.random()
    if r < 0.12:
        return MARKER
    if r < 0.2:
        # incl. values close to the marker (-12345.67) but not it: relative distance 1e-6 .. 1e-1, far beyond the 1e-10 of sanity_check
        return rng.choice([0.0, -0.0, 1.0, -1.0, 1e-300, -1e300, 12345.67, -12345.66, -12345.68, -12346.67, -12000.0, -13000.0, -1.33, -20.0])
    return exact_double(rng, -50, 50)


def point(rng, sig, lo=0.125, hi=0.875):
    return [hexf(exact_double(rng, lo, hi)) for ch in sig if ch == 'S']


def eval_line(p, apiname, fn, sig, pt, di=None, cb=None):
    L = ['eval', p, apiname, fn, sig]
    k = 0
    for ch in sig:
        if ch == 'S':
            L.append(pt[k]); k += 1
        elif ch == 'I':
            L.append(str(di if di is not None else 1))
        elif ch == 'F':
            L += (cb or ['const', hexf(1.5), hexf(0), hexf(0)])
    return L


def pick_api(rng, p, apis, fn=None, sig=None):
    if p != 'd':
        return 'cxx'
    a = rng.choice(apis)
    if a == 'c' and fn is not None and (fn, sig) not in c_overloads():
        return 'cxx'
    return a


def sweep(handles, p, cur, restore=True):
    """handles: list of (handle, solname).  Reads back every parameter of every handle."""
    L = [['list', p, 'cxx']]
    for h, s in handles:
        L.append(['select', p, 'cxx', h])
        L += [['name', p, 'cxx'], ['dim', p, 'cxx']]
        L += [['getp', p, 'cxx', k] for k in CAT[s]['pars']]
        L += [['getv', p, 'cxx', k] for k in CAT[s]['vecs']]
    if restore and cur is not None:
        L.append(['select', p, 'cxx', cur])
    return L


# ------------------------------------------------------------------------------------------------
def gen_param_store(rng, sol, p, apis=('cxx',), steps=60, variant='exc'):
    """C11: random set/get/init_param/purge/sanity/set_vec/get_vec with valid and invalid names."""
    e = CAT[sol]
    h = rng.choice(['nick', 'store', 'A b'])
    S = [['init', p, 'cxx', h, sol]] + sweep([(h, sol)], p, None, restore=False)
    badp = ['no_such_parameter', '', e['pars'][0].upper() + '_', ' ' + e['pars'][0]] if e['pars'] else ['nope']
    badv = ['no_such_vector', 'vec', '']
    # every parameter gets its own distinct value (random order), then everything is read back: two names
    # bound to one storage location, or a name bound to the wrong one, cannot survive this
    order = list(e['pars']); rng.shuffle(order)
    for i, k in enumerate(order):
        S.append(['setp', p, pick_api(rng, p, apis), k, hexf(100.0 + i + exact_double(rng, 0.0, 0.5))])
    S += sweep([(h, sol)], p, None, restore=False)
    # parameter names are used verbatim: a registered name with blanks appended or prepended, in another case, with '-' for
    # '_', with a tab or a character appended or cut short is an UNKNOWN name -- through every interface, set and get
    # (systematic, no random draw): nothing changes, the getter answers -20
    regd = set(e['pars'])
    for k in ([e['pars'][0], e['pars'][-1], e['pars'][len(e['pars']) // 2]] if e['pars'] else []):
        for dk in (k + ' ', k + '   ', ' ' + k, k.upper(), k.lower(), k.swapcase(), k.replace('_', '-'), k + '\t', k + 'x', k[:-1], k + '_'):
            if dk in regd or dk == '':
                continue
            for a in apis if p == 'd' else ('cxx',):
                S.append(['setp', p, a, dk, hexf(424242.5)])
                S.append(['getp', p, a, dk])
        S.append(['getp', p, 'cxx', k])
    if p == 'ld':       # what is set is what is got, to the last of the 64 mantissa bits
        wr = random.Random(len(e['pars']) * 7919 + 17)
        for i, k in enumerate(e['pars']):
            S.append(['setp', p, 'cxx', k, widen(wr, hexf(200.0 + i + exact_double(wr, 0.0, 0.5)))])
            S.append(['getp', p, 'cxx', k])
    S += sweep([(h, sol)], p, None, restore=False)
    for _ in range(steps):
        r = rng.random()
        a = pick_api(rng, p, apis)
        if r < 0.30 and e['pars']:
            S.append(['setp', p, a, rng.choice(e['pars']), hexf(rand_value(rng))])
        elif r < 0.36:
            S.append(['setp', p, a, rng.choice(badp), hexf(rand_value(rng))])
        elif r < 0.56 and e['pars']:
            S.append(['getp', p, a, rng.choice(e['pars'])])
        elif r < 0.62:
            S.append(['getp', p, a, rng.choice(badp)])
        elif r < 0.67:
            S.append(['initp', p, a])
        elif r < 0.71:
            S.append(['purge', p, a])
        elif r < 0.80:
            S.append(['sanity', p, a])
        elif r < 0.84:
            S.append(['dispp', p, a]); S.append(['dispv', p, a])
        elif r < 0.92:
            if e['vecs']:
                n = rng.choice([0, 0, 1, 2, 3, 5, 8])
                S.append(['setv', p, a, rng.choice(e['vecs']), n] + [hexf(exact_double(rng, -9, 9)) for _ in range(n)])
                S.append(['getv', p, a, rng.choice(e['vecs'])])
                if rng.random() < 0.7:      # a failing lookup right after a successful one -- through the same interface, then the other
                    S.append(['getv', p, a, rng.choice(badv)])
                    S.append(['getv', p, pick_api(rng, p, apis), rng.choice(badv)])
            else:
                S.append(['getv', p, a, rng.choice(badv)])
        elif r < 0.95:
            S.append(['setv', p, a, rng.choice(badv), 2, hexf(1.0), hexf(2.0)])
        else:
            S += sweep([(h, sol)], p, None, restore=False)
    S += sweep([(h, sol)], p, None, restore=False)
    return Execution(S, variant=variant, label='param_store:%s:%s' % (sol, p))


# ------------------------------------------------------------------------------------------------
def provided(sol, sigs_ok=None):
    return [tuple(c) for c in CAT[sol]['caps']]


def admissible_point(rng, sol, sig):
    """points inside the domain where every solution is defined (eta in (0,1), r>0, t>0, ...)"""
    n = sig.count('S')
    if sol == 'sod_1d':
        return [hexf(exact_double(rng, -0.9, 0.9)), hexf(exact_double(rng, 0.25, 0.75))][:n]
    if sol == 'fans_sa_steady_wall_bounded':
        return [hexf(exact_double(rng, 0.2, 0.9)), hexf(round(10.0 ** rng.uniform(-2.0, 0.0) * 2 ** 20) / 2.0 ** 20)][:n]
    return [hexf(exact_double(rng, 0.125, 0.875)) for _ in range(n)]


def purity_picker(sol):
    return (sa_chem_param if sol in ('rans_sa', 'fans_sa_transient_free_shear', 'fans_sa_steady_wall_bounded', 'euler_chem_1d')
            else closed_param if sol in ('sod_1d', 'cp_normal') else ablation_param if sol == 'navierstokes_ablation_1d_steady' else admissible_param
            if (sol.startswith('heateq') or sol.startswith('euler') or sol.startswith('navierstokes_2') or sol.startswith('navierstokes_3')
                or sol.startswith('axi') or sol in ('laplace_2d', 'burgers_equation', 'navierstokes_4d_compressible_powerlaw')) else around_default)


def gen_purity(rng, sol, apis=('cxx',), variant='exc', nev=10, noise=25, reverse=False, plan=None):
    """C10: the value of an evaluator depends only on (solution, current parameters, arguments).
    Phase 1 on handle `one`: parameter set P, every provided evaluator (+ random extra points) -> E(P).
    Phase 2: unrelated calls (other evaluators/arities/points, other handles, other precision, inits).
    Phase 3: a few parameters are changed one at a time (P -> P'), E(P') is taken at the SAME points, then the
             parameters are set back and E(P) is re-taken in shuffled order (memo: bit-identical to phase 1).
    Phase 4: a fresh handle `two` (different history) gets P' directly: E(P') must be bit-identical to phase 3.
    With reverse=True the phases run in the order 4, 3', 1 in a NEW process whose memo is shared with its twin
    (same plan): first-use effects (function statics, caches filled by the first call) show up as a mismatch.
    Returns (execution, plan)."""
    e = CAT[sol]
    caps = provided(sol)
    picker = purity_picker(sol)
    if plan is None:
        other = rng.choice([n for n in NONFIX if n != sol])
        P = {}
        for k in e['pars']:                     # every parameter gets a non-default admissible value
            P[k] = picker(rng, sol, k)
        if sol == 'sod_1d':
            P = {'Gamma': exact_double(rng, 1.2, 2.5), 'mu': exact_double(rng, 0.1, 0.4)}
        P2 = dict(P)
        for k in sorted(P):                     # about half of them differ in P2
            if rng.random() < 0.5:
                P2[k] = picker(rng, sol, k)
        if sol == 'sod_1d':
            P2 = {'Gamma': P['Gamma'], 'mu': exact_double(rng, 0.1, 0.4)}       # only mu differs
        V = {k: [exact_double(rng, 0.5, 3.0) for _ in range(rng.randint(2, 6))] for k in e['vecs']}
        V2 = {k: [exact_double(rng, 0.5, 3.0) for _ in range(rng.randint(2, 6))] for k in e['vecs']}
        cb = [rng.choice(['const', 'arr', 'poly']), hexf(exact_double(rng, 0.5, 2)), hexf(exact_double(rng, 0.1, 0.9)), hexf(exact_double(rng, 0.1, 2))]
        evs = []
        cb2 = [rng.choice(['const', 'arr', 'poly']), hexf(exact_double(rng, 2.5, 4)), hexf(exact_double(rng, 0.1, 0.9)), hexf(exact_double(rng, 0.1, 2))]
        for fn, sig in caps + [rng.choice(caps) for _ in range(nev)]:
            p = rng.choice(['d', 'd', 'ld'])
            pt = admissible_point(rng, sol, sig)
            evs.append((p, fn, sig, pt, rng.randint(-1, e['dim'] + 2), cb))
            if 'F' in sig:       # the same point with another caller-supplied function
                evs.append((p, fn, sig, pt, 1, cb2))
        # a ladder: one evaluator along a fine log-spaced line of its last coordinate (the re-evaluations in shuffled order
        # give every rung a different predecessor); branch-dependent scratch state -- a limiter, a clipped quantity --
        # that survives from one call to the next changes a rung's value.  The wall-bounded SA closure has such a
        # branch (Johnson-Allmaras limiter, active in a narrow band of wall distances for small mu): 24 rungs over 2 decades
        lad = [c for c in caps if c[0] == 'source_nu' and c[1] == 'SS'] if sol == 'fans_sa_steady_wall_bounded' else [c for c in caps if set(c[1]) == {'S'}]
        if lad:
            fn, sig = rng.choice(lad)
            base = admissible_point(rng, sol, sig)
            n = 24 if sol == 'fans_sa_steady_wall_bounded' else 8
            p = rng.choice(['d', 'ld'])
            for j in range(n):
                lo, hi = (-2.0, 0.0) if sol == 'fans_sa_steady_wall_bounded' else (-0.9, -0.06)
                yv = round(10.0 ** (lo + (hi - lo) * (j + rng.random()) / n) * 2 ** 20) / 2.0 ** 20
                evs.append((p, fn, sig, base[:-1] + [hexf(yv)], 1, cb))
        plan = dict(other=other, P=P, P2=P2, V=V, V2=V2, cb=cb, evs=evs, seed=rng.randint(0, 10**9))
    other, P, P2, V, V2, cb, evs = plan['other'], plan['P'], plan['P2'], plan['V'], plan['V2'], plan['cb'], plan['evs']
    lrng = random.Random(plan['seed'] + (1 if reverse else 0))
    hs = {'d': [('one', sol), ('two', sol), ('oth', other)], 'ld': [('one', sol), ('two', sol), ('oth', other)]}

    def setall(h, pars, vecs):
        L = []
        for p in ('d', 'ld'):
            L.append(['select', p, 'cxx', h])
            for k in sorted(pars):
                L.append(['setp', p, 'cxx', k, hexf(pars[k])])
            for k in sorted(vecs):
                L.append(['setv', p, 'cxx', k, len(vecs[k])] + [hexf(v) for v in vecs[k]])
        return L

    last_entry = {}

    def run_evals(order, h):
        L = [['select', 'd', 'cxx', h], ['select', 'ld', 'cxx', h]]
        # first, per precision, the evaluation made last (same evaluator, same point) -- now with whatever
        # parameters / handle are current: a cache keyed on the point alone answers with the old value
        lead = [last_entry[p] for p in ('d', 'ld') if p in last_entry]
        for (p, fn, sig, pt, di, cbk) in lead + list(order):
            L.append(eval_line(p, pick_api(lrng, p, apis, fn, sig), fn, sig, pt, di, cbk))
            last_entry[p] = (p, fn, sig, pt, di, cbk)
        return L

    def sweeps():
        L = []
        for p in ('d', 'ld'):
            L += sweep(hs[p], p, 'one')
        return L

    def noise_calls():
        L = []
        for _ in range(noise):
            p = lrng.choice(['d', 'ld'])
            r = lrng.random()
            if r < 0.35:
                L.append(['select', p, 'cxx', lrng.choice(['one', 'oth'])])
                fn, sig = lrng.choice(all_overloads())
                L.append(eval_line(p, 'cxx', fn, sig, point(lrng, sig), lrng.randint(0, 4)))
            elif r < 0.6:
                L.append(['select', p, 'cxx', 'oth'])
                if CAT[other]['pars']:
                    L.append(['setp', p, 'cxx', lrng.choice(CAT[other]['pars']), hexf(exact_double(lrng, 0.5, 3))])
            elif r < 0.8:
                L.append(['select', p, 'cxx', 'one'])
                fn, sig = lrng.choice(caps)
                L.append(eval_line(p, 'cxx', fn, sig, admissible_point(lrng, sol, sig), lrng.randint(1, 3), cb))
            else:
                L.append(['init', p, 'cxx', 'tmp', lrng.choice(NONFIX)])
        return L
    S = []
    for p in ('d', 'ld'):
        for h, s in hs[p]:
            S.append(['init', p, 'cxx', h, s])
    sh = list(evs); lrng.shuffle(sh)
    phase1 = setall('one', P, V) + sweeps() + run_evals(evs, 'one')
    phase3 = setall('one', P2, V2) + run_evals(evs, 'one') + setall('one', P, V) + run_evals(sh, 'one')
    phase4 = setall('two', P2, V2) + run_evals(sh, 'two')
    # the environment moves too: after the first phase the process's errno is left at EDOM (ERANGE in the twin) and the
    # floating-point exception flags are raised -- nothing an evaluator's value may depend on
    if not reverse:
        S += phase1 + noise_calls() + [['ambient', 'd', 'cxx', 'edom']] + phase3 + phase4 + sweeps()
    else:
        S += phase4 + noise_calls() + [['ambient', 'd', 'cxx', 'erange']] + setall('one', P2, V2) + run_evals(sh, 'one') + setall('one', P, V) + run_evals(evs, 'one') + sweeps()
    ex = Execution(S, variant=variant, label='purity:%s%s' % (sol, ':rev' if reverse else ''))
    return ex, plan


def gen_purity_pair(rng, sol, group, **kw):
    a, plan = gen_purity(rng, sol, **kw)
    b, _ = gen_purity(rng, sol, reverse=True, plan=plan, **kw)
    a.group = b.group = group
    return [a, b]


# ------------------------------------------------------------------------------------------------
def gen_sentinel(rng, sol, variant='exc', per=2):
    """C15: every public overload the solution does not provide, at random arguments, both precisions.  While
    precision p is probed, the OTHER precision's registry has a solution selected that DOES provide the overload
    (when one exists), so an evaluator that looks in the wrong registry returns a plausible number."""
    e = CAT[sol]
    caps = set(map(tuple, e['caps'])) | set(map(tuple, e['fcaps']))
    S = []
    for p in ('d', 'ld'):
        q = 'ld' if p == 'd' else 'd'
        S.append(['init', p, 'cxx', 'h', sol])
        if not e['fixture']:
            S += sweep([('h', sol)], p, None, restore=False)
        groups = {}
        for fn, sig in all_overloads():
            if (fn, sig) in caps:
                continue
            prov = [n for n in NONFIX if n != sol and [fn, sig] in CAT[n]['caps']]
            groups.setdefault(prov[0] if prov else None, []).append((fn, sig))
        for prov, ovs in groups.items():
            if prov:
                S.append(['init', q, 'cxx', 'other', prov])
                # ... and in THIS registry the provider answers each of these overloads first (the first call of an overload in
                # the process): an overload that binds to the solution of its first call keeps answering for the provider
                S.append(['init', p, 'cxx', 'prov', prov])
                for fn, sig in ovs:
                    S.append(eval_line(p, 'cxx', fn, sig, admissible_point(rng, prov, sig), 1))
                S.append(['select', p, 'cxx', 'h'])
            # the calls that print (listings of an object without vectors print nothing but a frame): whatever they do to
            # the output stream, the complaint of the next unprovided evaluator must still appear
            S += [[rng.choice(['dispv', 'dispp', 'list', 'sanity']), p, 'cxx'] for _ in range(2)]
            for fn, sig in ovs:
                for _ in range(per):
                    pt = [hexf(exact_double(rng, -3, 3)) for ch in sig if ch == 'S']
                    S.append(eval_line(p, 'cxx', fn, sig, pt, rng.choice([-1000000, -2, -1, 0, 1, 2, 3, 4, 5, 1000000])))
        if not e['fixture']:
            S += sweep([('h', sol)], p, None, restore=False)
    return Execution(S, variant=variant, label='sentinel:%s' % sol)


# ------------------------------------------------------------------------------------------------
def gen_reinit_same(names, variant='exc'):
    """C14/C12: "immediately after masa_init ... sanity_check and init_param return 0" also when the handle already holds
    an instance of the very same entry whose parameters were purged, and another handle is current in between"""
    out = []
    for i in range(0, len(names), 6):
        S = []
        for p in ('d', 'ld'):
            S.append(['init', p, 'cxx', 'keeper', 'laplace_2d'])
            for n in names[i:i + 6]:
                if n not in CAT or CAT[n]['fixture']:
                    continue
                S += [['init', p, 'cxx', 're', n], ['purge', p, 'cxx'], ['sanity', p, 'cxx'], ['select', p, 'cxx', 'keeper'], ['purge', p, 'cxx'],
                      ['init', p, 'cxx', 're', n], ['name', p, 'cxx'], ['sanity', p, 'cxx'], ['initp', p, 'cxx']]
                S += [['getp', p, 'cxx', k] for k in CAT[n]['pars'][:4]]
                S += [['select', p, 'cxx', 'keeper'], ['sanity', p, 'cxx'], ['initp', p, 'cxx']]
        out.append(Execution(S, variant=variant, label='reinit-same:%d' % i))
    return out


def gen_catalogue(names, variant='exc'):
    """C14: per printed name: init, get_name, sanity, init_param, dimension, every documented evaluator
    at an interior point with default parameters; both precisions."""
    execs = []
    for n in names:
        S = [['printid', 'd'], ['printid', 'ld']]
        e = CAT.get(n)
        for p in ('ld', 'd'):        # long double first: the double registry is still empty, nothing can be borrowed from it
            S.append(['init', p, 'cxx', 'cat', n])
            S += [['name', p, 'cxx'], ['dim', p, 'cxx']]
            if p == 'd':        # the same two questions through the C interface (caller-owned buffer, pre-filled by the driver)
                S += [['name', p, 'c'], ['dim', p, 'c']]
            if e and not e['fixture']:
                S += [['sanity', p, 'cxx'], ['initp', p, 'cxx'], ['sanity', p, 'cxx']]
                for fn, sig in map(tuple, e['caps']):
                    pt = [hexf(v) for v in [0.375, 0.625, 0.4375, 0.5625][:sig.count('S')]]
                    for di in ([1, 2, 3][:max(1, e['dim'] if e['dim'] < 4 else 3)] if 'I' in sig else [1]):
                        S.append(eval_line(p, 'cxx', fn, sig, pt, di))
        execs.append(Execution(S, variant=variant, label='catalogue:%s' % n))
    return execs


# ------------------------------------------------------------------------------------------------
def gen_registry_random(rng, variant='exc', steps=120, apis=('cxx',)):
    """C12: long random histories over several handles (verbatim, deliberately similar), both
    precisions, re-initialisation, with observation sweeps."""
    handles = ['nick', 'Nick', 'nick ', 'n-ick', 'bob']
    reg = {'d': {}, 'ld': {}}; cur = {'d': None, 'ld': None}
    S = []
    sols = rng.sample(NONFIX, 3) + [rng.choice(NONFIX)]
    if rng.random() < 0.5:          # one of the self-test fixtures among them (their store is the same map)
        sols.append(rng.choice([e['name'] for e in CATALOG if e['fixture']]))
    for _ in range(steps):
        p = rng.choice(['d', 'd', 'ld'])
        a = pick_api(rng, p, apis)
        r = rng.random()
        if r < 0.22 or not reg[p]:
            h = rng.choice(handles[:4]); s = rng.choice(sols)
            S.append(['init', p, a, h, s]); reg[p][h] = s; cur[p] = h
        elif r < 0.40:
            h = rng.choice(list(reg[p].keys()))
            S.append(['select', p, a, h]); cur[p] = h
        elif r < 0.62:
            s = reg[p][cur[p]]
            if CAT[s]['pars']:
                S.append(['setp', p, a, rng.choice(CAT[s]['pars']), hexf(exact_double(rng, -5, 5))])
        elif r < 0.75:
            s = reg[p][cur[p]]
            if CAT[s]['pars']:
                S.append(['getp', p, a, rng.choice(CAT[s]['pars'])])
        elif r < 0.80:
            S.append([rng.choice(['initp', 'purge', 'sanity']), p, a])
        elif r < 0.86:
            S.append(['list', p, a]); S.append(['name', p, a]); S.append(['dim', p, a])
        else:
            S += sweep(sorted(reg[p].items()), p, cur[p])
    for p in ('d', 'ld'):
        if reg[p]:
            S += sweep(sorted(reg[p].items()), p, cur[p])
    return Execution(S, variant=variant, label='registry_random')


# ------------------------------------------------------------------------------------------------
def gen_c_entry_points(rng, variant='exc'):
    """C17: every C evaluator symbol defined in cmasa.cpp, on a solution that provides it (and its C++
    twin right before/after), so that each of the ~80 evaluator wrappers is exercised at least once."""
    S = []
    by = {}
    for e in api()['c']:
        by.setdefault((e['fn'], e['sig']), []).append(e['cname'])
    i = 0
    for (fn, sig), cnames in sorted(by.items()):
        sols = [n for n in NONFIX if [fn, sig] in CAT[n]['caps']]
        if not sols:
            sols = [rng.choice(NONFIX)]       # nobody provides it: both interfaces must give the sentinel
        sol = rng.choice(sols)
        i += 1
        S.append(['init', 'd', 'c' if i % 2 else 'cxx', 'c%d' % (i % 3), sol])
        pt = admissible_point(rng, sol, sig)
        for cname in cnames:
            di = rng.randint(1, max(1, min(3, CAT[sol]['dim'])))
            cb = ['arr', hexf(1.5), hexf(0.5), hexf(2.0)]
            S.append(eval_line('d', 'cxx', fn, sig, pt, di, cb))
            S.append(eval_line('d', 'c', fn, sig, pt, di, cb) + [cname])
    return Execution(S, variant=variant, label='c_entry_points')


# ------------------------------------------------------------------------------------------------
# value histories (C01-C09, C20): admissible random parameter assignments, every parameter drawn
# independently, points in a bounded box
# ------------------------------------------------------------------------------------------------
def sgn(rng):
    return rng.choice([-1.0, 1.0])


def admissible_param(rng, sol, k):
    u = lambda lo, hi: exact_double(rng, lo, hi)
    if sol.startswith('heateq'):
        if k in ('k_0', 'cp_0', 'rho', 'k_1', 'k_2', 'cp_1', 'cp_2'):
            return u(0.3, 2.5)
        return sgn(rng) * u(0.3, 2.5)
    if sol == 'navierstokes_4d_compressible_powerlaw':
        # every one of the ~200 parameters non-zero; rho and T positive (constant part dominates)
        if k in ('Lx', 'Ly', 'Lz', 'R', 'T_r', 'mu_r', 'gamma', 'beta'):
            return {'gamma': u(1.2, 1.7), 'beta': u(0.3, 1.2)}.get(k, u(0.5, 3.0))
        if k in ('kappa_r', 'lambda_r'):
            return sgn(rng) * u(0.05, 0.5)
        if k in ('a_rho0', 'a_T0'):
            return u(2.0, 3.0)
        if k in ('f_rho0', 'f_T0', 'g_rho0', 'g_T0'):
            return sgn(rng) * u(0.05, 0.2)          # keep cos(f t + g) near 1 for t in [0, 2]
        if k.startswith('a_rho') or k.startswith('a_T'):
            return sgn(rng) * u(0.02, 0.12)
        if k.startswith('a_'):
            return sgn(rng) * u(0.1, 0.6)
        return sgn(rng) * u(0.3, 2.0)
    if k in ('L', 'Lx', 'Ly'):
        return u(0.5, 3.0)
    if k == 'Gamma':
        return u(1.2, 1.7)
    if k == 'R':
        return u(0.5, 3.0)
    if k in ('mu', 'k', 'nu'):
        return sgn(rng) * u(0.05, 0.5)
    if k.startswith('a_'):
        return u(0.3, 2.5)
    if k in ('rho_0',):
        return u(1.0, 2.0)
    if k in ('p_0',):
        return u(1.0, 3.0)
    if k.startswith('rho_') or k.startswith('p_'):
        return sgn(rng) * u(0.05, 0.25)
    if k.endswith('_0'):
        return sgn(rng) * u(0.3, 1.5)
    return sgn(rng) * u(0.1, 0.6)


DEFAULTS = {}


def defaults(sol):
    """default parameter values of a solution (double), read from the library once; used only to draw
    admissible inputs around physically meaningful values"""
    if not DEFAULTS:
        exe = mk.build_driver('exc')
        wd = workdir('defaults')
        execs = [Execution([['init', 'd', 'cxx', 'h', n]] + [['getp', 'd', 'cxx', k] for k in CAT[n]['pars']], label=n) for n in NONFIX]
        run_executions(execs, wd)
        for e in execs:
            DEFAULTS[e.label] = {ev['k']: float.fromhex(ev['ret']) for ev in e.events if ev.get('op') == 'getp' and 'ret' in ev}
        shutil.rmtree(wd, ignore_errors=True)
    return DEFAULTS[sol]


def around_default(rng, sol, k, spread=0.2, zero=(0.05, 0.3)):
    d = defaults(sol).get(k, 1.0)
    if d == 0.0:
        return sgn(rng) * exact_double(rng, *zero)
    f = exact_double(rng, 1.0 - spread, 1.0 + spread)
    return float(d) * f


def sa_chem_param(rng, sol, k):
    if sol == 'rans_sa' and k == 're_tau':
        return exact_double(rng, 50, 2000)
    if sol == 'fans_sa_steady_wall_bounded' and k == 'mu':
        # the laminar viscosity over decades: with a small one the Johnson-Allmaras limiter branch of the closure is active near the wall
        # (measured: the limiter is active for mu around 1e-3 at wall distances 0.01..0.1)
        lo, hi = (-3.4, -2.6) if rng.random() < 0.5 else (-4.0, -0.5)
        return round(10.0 ** rng.uniform(lo, hi) * 2 ** 30) / 2.0 ** 30
    if sol == 'fans_sa_transient_free_shear':
        if k in ('u_t', 'v_t'):
            return sgn(rng) * exact_double(rng, 0.2, 1.0)
        if k == 'rho_t':
            return sgn(rng) * exact_double(rng, 0.02, 0.1)
        if k == 'p_t':
            return sgn(rng) * exact_double(rng, 2, 20)
        if k == 'nu_sa_t':
            return sgn(rng) * exact_double(rng, 0.01, 0.04)
        if k in ('a_ut', 'a_vt', 'a_pt', 'a_rhot', 'a_nusat'):
            return exact_double(rng, 0.3, 2.5)
        if k in ('nu_sa_x', 'nu_sa_y'):
            return sgn(rng) * exact_double(rng, 0.02, 0.06)
        if k == 'mu':
            return exact_double(rng, 0.001, 0.1)
        if k in ('v_0', 'v_x'):
            return sgn(rng) * exact_double(rng, 0.2, 2.0)
    return around_default(rng, sol, k)


def ablation_param(rng, sol, k):
    """navierstokes_ablation_1d_steady: temperature and densities stay positive (the defaults T_0 = T_x = 12 let T touch 0)"""
    if k in ('T_x', 'rho_C_x', 'rho_C3_x', 'rho_N_x', 'rho_N2_x'):
        return sgn(rng) * exact_double(rng, 1.0, 6.0)
    if k in ('a_Tx', 'a_rho_C_x', 'a_rho_C3_x', 'a_rho_N_x', 'a_rho_N2_x'):
        return exact_double(rng, 0.3, 2.5)
    return around_default(rng, sol, k)


def closed_param(rng, sol, k):
    u = lambda lo, hi: exact_double(rng, lo, hi)
    if sol == 'sod_1d':               # Gamma (mu is set consistently by gen_values); a few classical values too
        return rng.choice([1.4, 2.0, 5.0 / 3.0, 3.0]) if rng.random() < 0.3 else (u(1.02, 1.12) if rng.random() < 0.3 else u(1.12, 2.5))   # below 1.1148 the rarefaction is transonic (its tail lies right of x = 0)
    if k == 'm':
        return sgn(rng) * u(0.5, 3.0)
    if k in ('sigma', 'sigma_d'):
        return u(0.5, 2.5)
    return sgn(rng) * u(0.5, 3.0)


def value_point(rng, sol, sig, vals=None):
    """vals given: an EDGE point -- every spatial coordinate within 2^-k (k = 4..30) of a length-scale parameter
    (+-L, +-Lx, ...), where fields built to vanish on the boundary of the box lose their leading terms and a
    cancellation-prone rewrite shows"""
    n = sig.count('S')
    lens = sorted(k for k in (vals or {}) if k[0] == 'L' and vals[k] > 0)
    freqs = sorted(k for k in (vals or {}) if k.startswith('a_') and vals[k] != 0)
    special = ('rans_sa', 'fans_sa_steady_wall_bounded', 'euler_chem_1d', 'sod_1d', 'cp_normal', 'radiation_integrated_intensity', 'navierstokes_4d_compressible_powerlaw')
    if lens and freqs and sol not in special and rng.random() < 0.5:
        # a zero / extremum of one of the trigonometric factors: a x / L = j / 2 (to within 2^-k, or exactly): rewrites with a
        # removable singularity or a cancellation at such points (1 + cos, tan, sin / x) show only there
        nsp = CAT[sol]['dim'] if CAT[sol]['dim'] < 4 else 3
        pt = []
        for i in range(n):
            if i >= nsp:
                pt.append(exact_double(rng, 0.0, 2.0)); continue
            L = vals[lens[i % len(lens)]]; a = abs(vals[rng.choice(freqs)]); j = rng.choice([1, 2, 3, 4])
            d = rng.choice([0.0, 2.0 ** -rng.randint(8, 40), -2.0 ** -rng.randint(8, 40)])
            s = 1.0 if sol.startswith('axi') and i == 0 else sgn(rng)
            pt.append(s * L * j / (2.0 * a) * (1.0 + d))
        return [hexf(v) for v in pt]
    if lens and sol not in ('rans_sa', 'fans_sa_steady_wall_bounded', 'euler_chem_1d', 'sod_1d', 'cp_normal', 'radiation_integrated_intensity'):
        nsp = CAT[sol]['dim'] if CAT[sol]['dim'] < 4 else 3
        pt = []
        for i in range(n):
            if i >= nsp:
                # (a tiny length scale scales the time too: the Burgers fields take t / L)
                pt.append(exact_double(rng, 0.0, 2.0) * (min(vals[k] for k in lens) if min(vals[k] for k in lens) < 2.0 ** -10 else 1.0)); continue
            L = vals[lens[i % len(lens)]]
            s = 1.0 if sol.startswith('axi') and i == 0 else sgn(rng)
            pt.append(s * L * (1.0 - 2.0 ** -rng.randint(4, 30)))
        return [hexf(v) for v in pt]
    if sol == 'rans_sa':
        return [hexf(exact_double(rng, 0.05, 0.95))]
    if sol == 'fans_sa_steady_wall_bounded':      # x, y > 0; wall distances over two decades
        return [hexf(exact_double(rng, 0.2, 2.0)), hexf(round(10.0 ** (rng.uniform(-6.0, -0.3) if rng.random() < 0.4 else rng.uniform(-2.0, -0.3)) * 2 ** 40) / 2.0 ** 40)][:n]     # wall distances over almost six decades (an absolute perturbation of the wall distance shows only very near the wall); nu_sa > 0 needs y < kappa u_tau / alpha
    if sol == 'euler_chem_1d':
        return [hexf(exact_double(rng, 0.0, 8.0))]
    if sol == 'sod_1d':
        t = exact_double(rng, 0.25, 1.0)
        if rng.random() < 0.3:         # slow characteristics: |x/t| < 0.1 (the tail of a transonic rarefaction, the neighbourhood of x = 0)
            return [hexf(sgn(rng) * t * exact_double(rng, 0.002, 0.1)), hexf(t)][:n]
        return [hexf(exact_double(rng, -1.5, 1.5)), hexf(t)][:n]
    if sol == 'cp_normal':
        return [hexf(exact_double(rng, -3.0, 3.0)) for _ in range(n)]
    if sol == 'radiation_integrated_intensity':
        # (one draw per coordinate, as before; its own value selects the class.)  x <= 0: the documented guard value of exact_u;
        # x > 1000: its "integrate to infinity" branch; otherwise x in (0.05, 3)
        def cls(v):
            f = (v - 0.05) / 0.95
            return (0.0 if f < 0.02 else -v) if f < 0.08 else (1000.0 + 64.0 * v if f > 0.94 else (v if f < 0.6 else 3.0 * v))
        return [hexf(cls(exact_double(rng, 0.05, 1.0))) for _ in range(n)]
    axi = sol.startswith('axi')
    pt = []
    for i in range(n):
        if axi and i == 0:
            pt.append(exact_double(rng, 0.3, 2.0))
        else:
            pt.append(exact_double(rng, -2.0, 2.0))
    nsp = CAT[sol]['dim'] if CAT[sol]['dim'] < 4 else 3
    if n > nsp:
        pt[-1] = exact_double(rng, 0.0, 2.0)
    return [hexf(v) for v in pt]


TRANSPORT = ('mu', 'k', 'nu', 'mu_r', 'kappa_r', 'lambda_r')


def scale_mix(rng, sol, vals, i=0):
    """C09: make different groups of terms dominate: over consecutive assignments the transport coefficients and
    the velocity amplitudes are rescaled by decades, systematically (admissibility -- positive density, pressure,
    temperature -- is not affected by either)"""
    ft = [1.0, 100.0, 0.01, 10.0][i % 4] * (2.0 ** rng.uniform(-1, 1))
    fv = [1.0, 1.0, 10.0, 0.1][i % 4]
    for k in vals:
        if k in TRANSPORT:
            vals[k] *= ft
    if fv != 1.0 and sol not in ('fans_sa_steady_wall_bounded', 'rans_sa', 'sod_1d', 'cp_normal', 'euler_chem_1d'):
        for k in vals:
            if k[0] in 'uvw' and k[1:2] == '_':
                vals[k] *= fv
    return vals


PROTECT = ('L', 'Lx', 'Ly', 'Lz', 'R', 'rho_0', 'p_0')      # Gamma = 0 is unphysical but the residual is finite there (only Gamma = 1 is singular)


def similar_pairs(sol):
    """pairs of parameters whose names differ in exactly one '_'-separated token (etaf1_N / etaf1_N2, a_ux / a_uy,
    u_x / v_x, k_1 / k_2, A_x / A_t): the candidates for "same kind of quantity", set exactly equal by the tie plans"""
    ps = [k for k in CAT[sol]['pars']]
    def sim(a, b):
        ta, tb = a.split('_'), b.split('_')
        return len(ta) == len(tb) and sum(x != y for x, y in zip(ta, tb)) == 1
    return [(a, b) for i, a in enumerate(ps) for b in ps[i + 1:] if sim(a, b)]


def zeroable(sol):
    """parameters that may be set to EXACTLY zero without leaving the admissible set (amplitudes, frequencies,
    transport coefficients, constant parts of velocities): a fast path or guard keyed on an exact zero shows only there"""
    if sol == 'navierstokes_4d_compressible_powerlaw':      # every amplitude except the constant parts of rho and T (which stay positive)
        return [k for k in CAT[sol]['pars'] if k.startswith('a_') and k not in ('a_rho0', 'a_T0')]
    if purity_picker(sol) is not admissible_param:
        return []
    return [k for k in CAT[sol]['pars'] if k not in PROTECT]


def field_groups(sol):
    """for the solutions whose exact fields are sums of modes with their own amplitudes: the parameters that switch one whole
    field off (all its amplitudes, the constant part included).  A field that is identically zero is inside "all parameters"
    of the exact-field and gradient evaluators (not of the source terms, which divide by rho and T): a rewrite of a gradient
    through a quotient or a logarithmic derivative shows only there."""
    pars = CAT[sol]['pars']
    if sol == 'navierstokes_4d_compressible_powerlaw':
        return {f: [k for k in pars if k.startswith('a_' + f) and (len(k) == len('a_' + f) or k[len('a_' + f)] in '0xyzt')] for f in ('rho', 'u', 'v', 'w', 'T')}
    G = {}
    for f in ('rho', 'u', 'v', 'w', 'p'):
        ks = [k for k in pars if k in (f + '_0', f + '_x', f + '_y', f + '_z', f + '_t', f + '_r')]
        if ks:
            G[f] = ks
    return G


def gen_values(rng, sol, precs=('d', 'ld'), nassign=2, npts=3, evaluators=None, setter=None, variant='exc', paired=True, mix=False, zero_plan=None, oat=0, tie_plan=None, scale_plan=None, origin=False, wide=False):
    """set every parameter to an admissible random value, then evaluate every provided evaluator at random
    points; with paired=True the same assignment and points are used in both precisions (inputs are exact
    doubles, so both instantiations receive identical mathematical inputs)."""
    e = CAT[sol]
    caps = [tuple(c) for c in e['caps']] if evaluators is None else evaluators
    S = []
    for p in precs:
        S.append(['init', p, 'cxx', 'val', sol])
        S.append(['init', p, 'cxx', 'val2', sol])      # a second object of the same solution: assignments alternate between the two
    last_pts = []
    for ai in range(nassign):
        pick = setter or (sa_chem_param if sol in ('rans_sa', 'fans_sa_transient_free_shear', 'fans_sa_steady_wall_bounded', 'euler_chem_1d')
                          else closed_param if sol in ('sod_1d', 'cp_normal')
                          else ablation_param if sol == 'navierstokes_ablation_1d_steady' else admissible_param)
        vals = {k: pick(rng, sol, k) for k in e['pars']}
        if mix:
            vals = scale_mix(rng, sol, vals, ai)
        if sol == 'cp_normal' and ai % 2 == 1:
            # a vague prior with precise data (sigma / sigma_d ~ 10^6) and the reverse, alternating: where an algebraically
            # equivalent rewrite of the posterior moments (1 - K, K = n s^2 / (n s^2 + s_d^2)) cancels
            big, small = ('sigma', 'sigma_d') if ai % 4 == 1 else ('sigma_d', 'sigma')
            vals[big] *= 1024.0; vals[small] /= 1024.0
        if zero_plan:
            for k in zero_plan[ai]:
                vals[k] = 0.0
        if tie_plan:            # two parameters exactly equal (a reuse keyed on the wrong pair of parameters shows only there)
            for a_, b_ in tie_plan[ai]:
                vals[b_] = vals[a_]
        if scale_plan:          # one parameter far outside the usual range
            for k, f in scale_plan[ai].items():
                vals[k] *= f
        data = None
        if sol == 'cp_normal':
            data = [exact_double(rng, -3.0, 3.0) for _ in range(2 * rng.randint(0, 3) + 1 + (ai % 2))]      # lengths 1..8, odd and even alternating
        rad = None
        if sol == 'radiation_integrated_intensity':
            n = rng.randint(1, 8)
            rad = {'vec_amp': [exact_double(rng, 0.5, 3.0) for _ in range(n)], 'vec_mean': [exact_double(rng, 0.0, 1.0) for _ in range(n)],
                   'vec_stdev': [exact_double(rng, 0.1, 0.5) for _ in range(n)]}
            if rng.random() < 0.25:      # unequal lengths: the documented guard value -1
                rad[rng.choice(sorted(rad))].append(exact_double(rng, 0.2, 0.4))
        cbk = [rng.choice(['const', 'arr', 'poly']), hexf(exact_double(rng, 0.5, 2.0)), hexf(exact_double(rng, 0.1, 0.9)), hexf(exact_double(rng, 0.1, 2.0))]
        cbk2 = [rng.choice(['const', 'arr', 'poly']), hexf(exact_double(rng, 2.5, 4.0)), hexf(exact_double(rng, 0.1, 0.9)), hexf(exact_double(rng, 0.1, 2.0))]
        if ai % 3 != 2:      # a positive callback far below one unit roundoff, or very large (its term then dominates): the caller's
            # function is used as it is
            cbk2 = ['const', hexf(rng.choice([1e-18, 1e-24, 1e-30]) if ai % 3 == 1 else rng.choice([1e4, 1e6, 1e9])), hexf(0.0), hexf(0.0)]
        pts = []
        # first, the evaluations of the previous assignment once more at the SAME points (new parameters): a
        # cache keyed on the point, or a value computed once and kept, shows up against the oracle
        if last_pts:
            lf, ls, lpt, ldi = last_pts[-1]
            pts.append(last_pts[-1])
            # ... and every other evaluator of the same arity at that very point
            pts += [(fn, sig, lpt, ldi) for fn, sig in caps if sig == ls and fn != lf]
            pts += [x for x in last_pts[:-1] if rng.random() < 0.3]
        lscaled = bool(scale_plan) and any(k[0] == 'L' and abs(f) != 1 for k, f in scale_plan[ai].items())
        for _ in range(0 if lscaled else npts):
            order = list(caps); rng.shuffle(order)
            for fn, sig in order:
                dis = [rng.randint(-1, e['dim'] + 2)] if 'I' in sig else [None]
                if sol == 'cp_normal' and 'I' in sig:
                    dis = [rng.randint(0, 20)]
                pts.append((fn, sig, value_point(rng, sol, sig), dis[0]))
        if origin:      # coordinates exactly 0: every non-empty subset of the coordinates of every evaluator (a guard on a phase,
            # a quotient x / x, a branch on the sign of a coordinate)
            for fn, sig in caps:
                n = sig.count('S')
                for mask in range(2 ** n - 1, 0, -1):      # all coordinates 0 first: the first evaluation of a fresh handle
                    pt = value_point(rng, sol, sig)
                    pt = [hexf(0.0) if mask >> i & 1 else pt[i] for i in range(n)]
                    pts.append((fn, sig, pt, rng.randint(1, e['dim']) if 'I' in sig else None))
        if any(k[0] == 'L' for k in e['pars']):
            for fn, sig in caps:
                if lscaled or rng.random() < 0.5:
                    pts.append((fn, sig, value_point(rng, sol, sig, vals), rng.randint(1, e['dim']) if 'I' in sig else None))
        if sol == 'fans_sa_steady_wall_bounded':      # the limiter branch of the closure is active in a narrow band of wall distances (for
            # small mu): a ladder of 12 rungs over y = 10^-2.5 .. 10^-0.3 for the one evaluator that depends on it
            for fn, sig in caps:
                if fn == 'source_nu' and sig == 'SS':
                    x0 = exact_double(rng, 0.2, 2.0)
                    for j in range(12):
                        yv = round(10.0 ** (-2.5 + 2.2 * (j + rng.random()) / 12) * 2 ** 30) / 2.0 ** 30
                        pts.append((fn, sig, [hexf(x0), hexf(yv)], None))
        if sol == 'sod_1d' and vals.get('Gamma', 2.0) < 1.12:      # transonic rarefaction: its tail lies at 0 < x/t < u* - c* (<= 0.057)
            for fn, sig in caps:
                for _ in range(4):
                    t = exact_double(rng, 0.25, 1.0)
                    pts.append((fn, sig, [hexf(t * exact_double(rng, 0.002, 0.055)), hexf(t)], None))
        last_pts = pts[-len(caps):]
        if ai > 0:      # the environment's step (errno, floating-point flags): the first assignment runs in a clean process
            S.append(['ambient', 'd', 'cxx', ('edom', 'erange', 'clear')[(ai - 1) % 3]])
        for p in precs:
            S.append(['select', p, 'cxx', 'val' if ai % 2 == 0 else 'val2'])
            for k in e['pars']:
                # wide: long double parameters with all 64 mantissa bits in use (no double holds them)
                S.append(['setp', p, 'cxx', k, widen(rng, hexf(vals[k])) if wide and p == 'ld' and not (sol == 'sod_1d' and k == 'Gamma') else hexf(vals[k])])
            if sol == 'sod_1d':
                # mu = (Gamma-1)/(Gamma+1), correctly rounded in the precision at hand (30-digit decimal literal)
                from decimal import Decimal, getcontext
                getcontext().prec = 40
                gm = Decimal(vals['Gamma'])
                S.append(['setp', p, 'cxx', 'mu', str((gm - 1) / (gm + 1))])
            if data is not None:
                S.append(['setv', p, 'cxx', 'vec_data', len(data)] + [hexf(v) for v in data])
            if rad is not None:
                for k in sorted(rad):
                    S.append(['setv', p, 'cxx', k, len(rad[k])] + [hexf(v) for v in rad[k]])
            for fn, sig, pt, di in pts:
                S.append(eval_line(p, 'cxx', fn, sig, pt, di, cbk))
                if 'F' in sig:   # the same point with another caller-supplied function right away
                    S.append(eval_line(p, 'cxx', fn, sig, pt, di, cbk2))
    # one parameter at a time: only ONE parameter changes, then every evaluator again at the very same point -- a value
    # memoised under a key that omits that parameter (or derived from it once, at construction) shows against the oracle
    if oat and last_pts and not zero_plan and sol not in ('sod_1d',):
        # the constitutive / scalar parameters first (for the 205-parameter solution: beta, gamma, R, T_r, mu_r, ... before
        # the modal amplitudes, frequencies and phases), then a random selection of the others
        import re as _re
        first = [k for k in e['pars'] if not _re.match(r'^[a-g]_', k)]; rest = [k for k in e['pars'] if k not in first]
        rng.shuffle(first); rng.shuffle(rest)
        ks = (first if len(first) <= 12 else []) + rest + (first if len(first) > 12 else [])
        byarity0 = {}
        for fn, sig, pt, di in last_pts:
            byarity0.setdefault(sig, (pt, di))
        S.append(['ambient', 'd', 'cxx', 'edom' if nassign % 2 else 'erange'])
        for p in precs:          # priming: the point of this phase is the LAST point evaluated before the first change, too
            for fn, sig in caps:
                if sig in byarity0:
                    S.append(eval_line(p, 'cxx', fn, sig, byarity0[sig][0], byarity0[sig][1], cbk))
        for k in ks[:oat]:
            nv = pick(rng, sol, k)
            if mix and k in TRANSPORT:
                nv *= 3.0
            vals[k] = nv
            byarity = {}
            for fn, sig, pt, di in last_pts:
                byarity.setdefault(sig, (pt, di))
            for p in precs:
                S.append(['setp', p, 'cxx', k, hexf(nv)])
                for fn, sig in caps:
                    if sig in byarity:
                        S.append(eval_line(p, 'cxx', fn, sig, byarity[sig][0], byarity[sig][1], cbk))
    ex = Execution(S, variant=variant, label='values:%s' % sol)
    ex.oracle = True
    return ex


# ------------------------------------------------------------------------------------------------
# C20: nested-model reductions -- two handles in one process, paired evaluations
# ------------------------------------------------------------------------------------------------
EQ_NAMES = {'rho': ('source_rho',), 'mx': ('source_rho_u', 'source_u'), 'my': ('source_rho_v', 'source_v'),
            'mz': ('source_rho_w', 'source_w'), 'e': ('source_rho_e', 'source_e'), 't': ('source_t',)}


def eq_eval(sol, eq, nargs):
    for fn, sig in map(tuple, CAT[sol]['caps']):
        if fn in EQ_NAMES[eq] and sig == 'S' * nargs:
            return fn, sig
    return None


def reductions():
    R = []
    zs3 = lambda f: [f + '_z']
    z_amp = ['rho_z', 'u_z', 'v_z', 'p_z', 'w_0', 'w_x', 'w_y', 'w_z']
    R.append(('euler_3d', 'euler_2d', z_amp, ['rho', 'mx', 'my', 'e'], 'z'))
    R.append(('navierstokes_3d_compressible', 'navierstokes_2d_compressible', z_amp, ['rho', 'mx', 'my', 'e'], 'z'))
    R.append(('navierstokes_2d_compressible', 'euler_2d', ['mu', 'k'], ['rho', 'mx', 'my', 'e'], None))
    R.append(('navierstokes_3d_compressible', 'euler_3d', ['mu', 'k'], ['rho', 'mx', 'my', 'mz', 'e'], None))
    t1 = ['rho_t', 'u_t', 'p_t']
    R.append(('euler_transient_1d', 'euler_1d', t1, ['rho', 'mx', 'e'], 't'))
    R.append(('euler_transient_2d', 'euler_2d', t1 + ['v_t'], ['rho', 'mx', 'my', 'e'], 't'))
    R.append(('euler_transient_3d', 'euler_3d', t1 + ['v_t', 'w_t'], ['rho', 'mx', 'my', 'mz', 'e'], 't'))
    for d in '123':
        for kind in ('const', 'var'):
            R.append(('heateq_%sd_unsteady_%s' % (d, kind), 'heateq_%sd_steady_%s' % (d, kind), ['A_t', 'B_t', 'C_t', 'D_t'], ['t'], 't'))
        R.append(('heateq_%sd_steady_var' % d, 'heateq_%sd_steady_const' % d, ['k_1', 'k_2'], ['t'], None))
        R.append(('heateq_%sd_unsteady_var' % d, 'heateq_%sd_unsteady_const' % d, ['k_1', 'k_2', 'cp_1', 'cp_2'], ['t'], None))
    return R


def gen_reduction(rng, big, small, zero, eqs, extra, npts=3, nassign=2, variant='exc'):
    """big: the richer solution, with the parameters in `zero` set to 0; small: the solution it must reduce to.
    extra: 'z' / 't': the big solution takes one more coordinate (any value), None: same arguments."""
    S = []
    for p in ('d', 'ld'):
        S.append(['init', p, 'cxx', 'big', big]); S.append(['init', p, 'cxx', 'small', small])
    lab = 0
    prev = None
    for ai in range(nassign):
        shared = {}
        for k in CAT[big]['pars']:
            shared[k] = 0.0 if k in zero else admissible_param(rng, big, k)
        for k in CAT[small]['pars']:
            if k not in shared:
                shared[k] = admissible_param(rng, small, k)
        nsmall = CAT[small]['dim'] + (1 if 'unsteady' in small else 0)
        pts = []
        for _ in range(npts):
            base = [exact_double(rng, -2.0, 2.0) for _ in range(nsmall)]
            ext = exact_double(rng, 0.0, 2.0)
            pts.append((base, ext))
        # the very first evaluations of the fresh handles are at the origin (all coordinates and the time exactly 0: the
        # first time level of a time loop); after new parameters, the first evaluations are at the previous point again
        pts[0] = ([0.0] * nsmall, 0.0) if prev is None else prev
        prev = pts[-1]
        for p in ('d', 'ld'):
            for h, sol in (('big', big), ('small', small)):
                S.append(['select', p, 'cxx', h])
                for k in CAT[sol]['pars']:
                    S.append(['setp', p, 'cxx', k, hexf(shared[k])])
            for base, ext in pts:
                for eq in eqs:
                    nb = nsmall + (1 if extra else 0)
                    eb, es = eq_eval(big, eq, nb), eq_eval(small, eq, nsmall)
                    if not eb or not es:
                        continue
                    lab += 1
                    bargs = base + [ext] if extra else base
                    if extra == 'z' or extra is None or extra == 't':
                        pass
                    S.append(['select', p, 'cxx', 'big'])
                    S.append(eval_line(p, 'cxx', eb[0], eb[1], [hexf(v) for v in bargs]) + ['pair:r%d' % lab])
                    S.append(['select', p, 'cxx', 'small'])
                    S.append(eval_line(p, 'cxx', es[0], es[1], [hexf(v) for v in base]) + ['pair:r%d' % lab])
    return Execution(S, variant=variant, label='reduction:%s->%s' % (big, small))


# ------------------------------------------------------------------------------------------------
# C19: memory histories
# ------------------------------------------------------------------------------------------------
def gen_init_orders(rng, variant='exc', alloc=False, fill=None):
    """every solution type initialised in a random order, each three times in a row on the same handle (memory in
    use must be the same after the 2nd and the 3rd), then again on distinct handles; vector parameters of changing
    length through both interfaces, C arrays of length 0..8; sweeps"""
    names = [e['name'] for e in CATALOG]
    order = list(names); rng.shuffle(order)
    S = []
    for n in order:
        p = rng.choice(['d', 'd', 'ld'])
        for _ in range(3):
            S.append(['init', p, 'cxx', 'slot', n])
        if not CAT[n]['fixture']:
            S.append(['sanity', p, 'cxx'])
            for k in CAT[n]['vecs']:
                for ln in (0, 1, 8, 3, 0, 5):
                    a = 'c' if (p == 'd' and rng.random() < 0.5) else 'cxx'
                    S.append(['setv', p, a, k, ln] + [hexf(exact_double(rng, 0.5, 2.0)) for _ in range(ln)])
                    S.append(['getv', p, 'c' if p == 'd' else 'cxx', k])
                    S.append(['sanity', p, 'cxx']); S.append(['dispv', p, 'cxx'])
                    for fn, sig in map(tuple, CAT[n]['caps']):
                        if ln > 0:
                            S.append(eval_line(p, 'cxx', fn, sig, admissible_point(rng, n, sig), rng.randint(0, 6)))
            # vectors of unequal length, one of them shorter than the others by more than its capacity
            if len(CAT[n]['vecs']) > 1:
                for short in CAT[n]['vecs']:
                    S.append(['init', p, 'cxx', 'slot', n])      # a fresh object: default capacities
                    for k in CAT[n]['vecs']:
                        if k != short:
                            S.append(['setv', p, 'cxx', k, 60] + [hexf(exact_double(rng, 0.5, 2.0)) for _ in range(60)])
                    for fn, sig in map(tuple, CAT[n]['caps']):
                        S.append(eval_line(p, 'cxx', fn, sig, admissible_point(rng, n, sig), 1))
            S.append(['initp', p, 'cxx'])
            for fn, sig in rng.sample(list(map(tuple, CAT[n]['caps'])), min(3, len(CAT[n]['caps']))):
                S.append(eval_line(p, 'cxx', fn, sig, admissible_point(rng, n, sig), rng.randint(-1, 4)))
            # integer arguments (gradient direction, moment order) at and far beyond their range, either sign
            for fn, sig in map(tuple, CAT[n]['caps']):
                if 'I' in sig:
                    for di in (-1000000, -2, -1, 0, CAT[n]['dim'] + 1, 1000000):
                        S.append(eval_line(p, 'cxx', fn, sig, admissible_point(rng, n, sig), di))
    for i, n in enumerate(rng.sample(names, 8)):
        S.append(['init', 'd', 'c', 'h%d' % i, n]); S.append(['init', 'ld', 'cxx', 'h%d' % i, n])
    S.append(['list', 'd', 'cxx']); S.append(['list', 'ld', 'cxx'])
    S.append(['printid', 'd']); S.append(['printid', 'ld'])
    for i in range(8):
        S.append(['select', 'd', 'cxx', 'h%d' % i]); S.append(['name', 'd', 'c'])
    return Execution(S, variant=variant, alloc=alloc, fill=fill, label='init_orders')


COORD_LETTERS = {'axi': 'rz', 'cart': 'xyz'}


def gen_unknown_handles(variant='exc'):
    """C16: selecting a handle that is not registered is fatal in EVERY registry state and for every spelling: the empty
    string, a blank, a registered handle in another case / with a blank appended / cut short, a very long one -- on a
    registry that never saw an init, on one where only the other precision did, with one and with two handles registered.
    exc build: one process per history, the walk continues after each caught failure (sweeps in between);
    exit build: one process per (history, spelling)."""
    hist = {'never': [], 'other-precision-only': [['init', 'Q', 'cxx', 'a', 'euler_1d']],
            'one': [['init', 'P', 'cxx', 'a', 'euler_1d'], ['setp', 'P', 'cxx', 'u_0', hexf(2.5)]],
            'two': [['init', 'P', 'cxx', 'a', 'euler_1d'], ['init', 'P', 'cxx', 'Bb', 'laplace_2d'], ['init', 'Q', 'cxx', 'a', 'euler_2d']]}
    unknown = ['', ' ', 'A', 'a ', ' a', 'bb', 'B', 'Bb ', 'a' * 300, 'a\tb', '-']
    out = []
    for hn, H in sorted(hist.items()):
        for p, api in (('d', 'cxx'), ('ld', 'cxx'), ('d', 'c')):
            q = 'ld' if p == 'd' else 'd'
            pre = [[(p if x == 'P' else q if x == 'Q' else x) for x in l] for l in H]
            regd = [(l[3], l[4]) for l in pre if l[0] == 'init' and l[1] == p]
            if variant == 'exc':
                S = list(pre)
                for u in unknown:
                    S.append(['select', p, api, u])
                    S.append(['list', p, 'cxx'])
                    if regd:
                        S += [['name', p, 'cxx'], ['getp', p, 'cxx', CAT[regd[-1][1]]['pars'][0]]]
                S += sweep(regd, p, None, restore=False) if regd else []
                out.append(Execution(S, variant='exc', label='unknown-handles:%s:%s:%s' % (hn, p, api)))
            else:
                for u in unknown[:6]:
                    out.append(Execution(list(pre) + [['select', p, api, u]], variant='exit', label='unknown-handle-exit:%s:%s:%s' % (hn, p, api)))
    return out


def gen_twins(rng, sol, variant='exc'):
    """C12: two handles of the SAME solution type own independent instances, and a re-used handle owns a fresh one: the same
    evaluations with the same parameters through handle a, then through a fresh handle b, then through a re-initialised a give
    the same values (the specification's memo: identical key => bit-identical value) -- at the defaults first, then with every
    parameter set.  State shared between instances (a class-level cache that lets the second instance skip its own set-up)
    shows as a mismatch."""
    e = CAT[sol]
    picker = purity_picker(sol)
    P = {k: picker(rng, sol, k) for k in e['pars']}
    if sol == 'sod_1d':
        P = {'Gamma': exact_double(rng, 1.2, 2.5), 'mu': exact_double(rng, 0.1, 0.4)}
    V = {k: [exact_double(rng, 0.5, 3.0) for _ in range(3)] for k in e['vecs']}
    cb = ['arr', hexf(1.5), hexf(0.5), hexf(2.0)]
    evs = [(fn, sig, admissible_point(rng, sol, sig), rng.randint(1, max(1, e['dim']))) for fn, sig in provided(sol) for _ in range(2)]
    S = []
    for p in ('d', 'ld'):
        def evals():
            return [eval_line(p, 'cxx', fn, sig, pt, di, cb) for fn, sig, pt, di in evs]
        def setall():
            return [['setp', p, 'cxx', k, hexf(P[k])] for k in sorted(P)] + [['setv', p, 'cxx', k, len(V[k])] + [hexf(v) for v in V[k]] for k in sorted(V)]
        S += [['init', p, 'cxx', 'a', sol]] + evals() + [['init', p, 'cxx', 'b', sol]] + evals()
        S += [['select', p, 'cxx', 'a']] + setall() + evals() + [['select', p, 'cxx', 'b']] + setall() + evals()
        S += [['init', p, 'cxx', 'a', sol]] + evals() + setall() + evals() + [['init', p, 'cxx', 'c', sol]] + setall() + evals()
        S += sweep([('a', sol), ('b', sol), ('c', sol)], p, 'a')
    return Execution(S, variant=variant, label='twins:%s' % sol)


def gen_late(rng, variant='exc'):
    """calls made while the process is shutting down, from an atexit handler registered before the first MASA call (a
    program that reads a parameter or evaluates in its clean-up code): the registries are library globals, alive until the
    library itself is torn down -- reads, evaluations, a selection, even a new masa_init behave as always"""
    sols = rng.sample([n for n in NONFIX if CAT[n]['pars']], 2) + ['radiation_integrated_intensity']
    S = []
    for p in ('d', 'ld'):
        for i, sol in enumerate(sols):
            S.append(['init', p, 'cxx', 'late%d' % i, sol])
            k = CAT[sol]['pars'][0] if CAT[sol]['pars'] else None
            if k:
                S.append(['setp', p, 'cxx', k, hexf(exact_double(rng, 0.5, 2.0))])
            for v in CAT[sol]['vecs']:
                S.append(['setv', p, 'cxx', v, 3] + [hexf(exact_double(rng, 0.5, 2.0)) for _ in range(3)])
            fn, sig = rng.choice(provided(sol))
            S.append(eval_line(p, 'cxx', fn, sig, admissible_point(rng, sol, sig), 1))
    S.append(['late'])
    for p in ('d', 'ld'):
        for i, sol in reversed(list(enumerate(sols))):
            a = 'c' if p == 'd' and i == 0 else 'cxx'
            S.append(['select', p, a, 'late%d' % i])
            S.append(['name', p, a])
            for k in CAT[sol]['pars'][:3]:
                S.append(['getp', p, a, k])
            for v in CAT[sol]['vecs']:
                S.append(['getv', p, a, v])
            fn, sig = rng.choice(provided(sol))
            S.append(eval_line(p, 'cxx', fn, sig, admissible_point(rng, sol, sig), 1))
        S.append(['list', p, 'cxx'])
        S.append(['init', p, 'cxx', 'late0', sols[1]])
        S.append(['init', p, 'cxx', 'verylate', sols[0]])
        S.append(['sanity', p, 'cxx'])
    return Execution(S, variant=variant, label='late')


def gen_special_points(rng, sol, evaluators, variant='exc'):
    """the cheap evaluators (exact fields, gradients) at the zeros and extrema of every trigonometric factor: coordinate i
    such that a x_i / L = j / 2 (exactly, and 2^-12 beside it), for every frequency parameter a that belongs to that
    coordinate and j = 1..4; the other coordinates random.  A rewrite with a removable singularity or a cancellation
    (1 + cos, tan, sin/x ...) is wrong only there."""
    e = CAT[sol]
    vals = {k: admissible_param(rng, sol, k) for k in e['pars']}
    lens = sorted(k for k in vals if k[0] == 'L' and vals[k] > 0)
    letters = COORD_LETTERS['axi' if sol.startswith('axi') else 'cart']
    nsp = e['dim'] if e['dim'] < 4 else 3
    S = []
    for p in ('d', 'ld'):
        S.append(['init', p, 'cxx', 'sp', sol])
        S += [['setp', p, 'cxx', k, hexf(vals[k])] for k in e['pars']]
    if not lens:
        return None
    for fn, sig in evaluators:
        n = sig.count('S')
        for i in range(min(n, nsp) + (1 if n > nsp else 0)):
            letter = letters[i] if i < nsp and i < len(letters) else 't'
            fr = [k for k in vals if k.startswith('a_') and k.endswith(letter) and vals[k] != 0]
            for a in fr:
                for j in (1, 2, 3, 4):
                    for d in (0.0, 2.0 ** -12):
                        pt = [exact_double(rng, 0.3, 2.0) for _ in range(n)]
                        pt[i] = vals[lens[min(i, len(lens) - 1)]] * j / (2.0 * abs(vals[a])) * (1.0 + d)
                        for p in ('d', 'ld'):
                            S.append(eval_line(p, 'cxx', fn, sig, [hexf(v) for v in pt], rng.randint(1, nsp) if 'I' in sig else None))
    ex = Execution(S, variant=variant, label='special:%s' % sol)
    ex.oracle = True
    return ex


def gen_default_values(rng, sol, npts=4, variant='exc', evaluators=None):
    """the library's own default parameters (what every test and example of the repository uses), every provided
    evaluator at random points, both precisions -- judged by the oracle like any other assignment"""
    e = CAT[sol]
    caps = [tuple(c) for c in e['caps']] if evaluators is None else evaluators
    S = []
    cbk = ['arr', hexf(1.5), hexf(0.5), hexf(2.0)]
    for p in ('d', 'ld'):
        S.append(['init', p, 'cxx', 'dflt', sol])
        S += [['getp', p, 'cxx', k] for k in e['pars']] + [['getv', p, 'cxx', k] for k in e['vecs']]   # binds the defaults
    for _ in range(npts):
        for fn, sig in caps:
            pt = value_point(rng, sol, sig)
            di = rng.randint(0, 20) if sol == 'cp_normal' else rng.randint(-1, e['dim'] + 2)
            for p in ('d', 'ld'):
                S.append(eval_line(p, 'cxx', fn, sig, pt, di, cbk))
    # ... and once more after every parameter and vector was overwritten and masa_init_param called: the defaults, all of them,
    # are back (vectors of another length included), and the evaluators see them
    for p in ('d', 'ld'):
        for k in e['pars']:
            S.append(['setp', p, 'cxx', k, hexf(exact_double(rng, 0.5, 3.0))])
        for k in e['vecs']:
            n = rng.choice([2, 3, 9])
            S.append(['setv', p, 'cxx', k, n] + [hexf(exact_double(rng, -2.0, 3.0)) for _ in range(n)])
        S.append(['initp', p, 'cxx'])
        S += [['getv', p, 'cxx', k] for k in e['vecs']]
        for fn, sig in caps:
            S.append(eval_line(p, 'cxx', fn, sig, value_point(rng, sol, sig), rng.randint(0, 20) if sol == 'cp_normal' else rng.randint(-1, e['dim'] + 2), cbk))
    ex = Execution(S, variant=variant, label='defaults:%s' % sol)
    ex.oracle = True
    return ex
