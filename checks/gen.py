#!/usr/bin/env python3
"""History generators: seeded random call sequences over the concrete catalogue, one family per
property.  A generator only decides *what to call*; it never judges a result -- every line of every
log is judged by the TLA+ trace specification."""
import math, random
from common import *

MARKER = -12345.67
API = None


def api():
    global API
    if API is None:
        API = mk.api_json('exc')
    return API


def all_overloads():
    return [(e['fn'], e['sig']) for e in api()['cxx']]


def c_overloads():
    return set((e['fn'], e['sig']) for e in api()['c'])


def exact_double(rng, lo, hi):
    """a double with a short mantissa (exactly representable in both precisions, prints short)"""
    x = rng.uniform(lo, hi)
    return round(x * 1024) / 1024.0


def rand_value(rng):
    r = rng.random()
    if r < 0.12:
        return MARKER
    if r < 0.2:
        return rng.choice([0.0, -0.0, 1.0, -1.0, 1e-300, -1e300, 12345.67, -12345.66, -1.33, -20.0])
    return exact_double(rng, -50, 50)


def point(rng, sig, lo=0.125, hi=0.875):
    return [hexf(exact_double(rng, lo, hi)) for ch in sig if ch == 'S']


def eval_line(p, apiname, fn, sig, pt, di=None, cb=None):
    L = ['eval', p, apiname, fn, sig]
    k = 0
    for ch in sig:
        if ch == 'S':
            L.append(pt[k]); k += 1
        elif ch == 'I':
            L.append(str(di if di is not None else 1))
        elif ch == 'F':
            L += (cb or ['const', hexf(1.5), hexf(0), hexf(0)])
    return L


def pick_api(rng, p, apis, fn=None, sig=None):
    if p != 'd':
        return 'cxx'
    a = rng.choice(apis)
    if a == 'c' and fn is not None and (fn, sig) not in c_overloads():
        return 'cxx'
    return a


def sweep(handles, p, cur, restore=True):
    """handles: list of (handle, solname).  Reads back every parameter of every handle."""
    L = [['list', p, 'cxx']]
    for h, s in handles:
        L.append(['select', p, 'cxx', h])
        L += [['name', p, 'cxx'], ['dim', p, 'cxx']]
        if not CAT[s]['fixture']:
            L += [['getp', p, 'cxx', k] for k in CAT[s]['pars']]
            L += [['getv', p, 'cxx', k] for k in CAT[s]['vecs']]
    if restore and cur is not None:
        L.append(['select', p, 'cxx', cur])
    return L


# ------------------------------------------------------------------------------------------------
def gen_param_store(rng, sol, p, apis=('cxx',), steps=60, variant='exc'):
    """C11: random set/get/init_param/purge/sanity/set_vec/get_vec with valid and invalid names."""
    e = CAT[sol]
    h = rng.choice(['nick', 'store', 'A b'])
    S = [['init', p, 'cxx', h, sol]] + sweep([(h, sol)], p, None, restore=False)
    badp = ['no_such_parameter', '', e['pars'][0].upper() + '_', ' ' + e['pars'][0]] if e['pars'] else ['nope']
    badv = ['no_such_vector', 'vec', '']
    for _ in range(steps):
        r = rng.random()
        a = pick_api(rng, p, apis)
        if r < 0.30 and e['pars']:
            S.append(['setp', p, a, rng.choice(e['pars']), hexf(rand_value(rng))])
        elif r < 0.36:
            S.append(['setp', p, a, rng.choice(badp), hexf(rand_value(rng))])
        elif r < 0.56 and e['pars']:
            S.append(['getp', p, a, rng.choice(e['pars'])])
        elif r < 0.62:
            S.append(['getp', p, a, rng.choice(badp)])
        elif r < 0.67:
            S.append(['initp', p, a])
        elif r < 0.71:
            S.append(['purge', p, a])
        elif r < 0.80:
            S.append(['sanity', p, a])
        elif r < 0.84:
            S.append(['dispp', p, a]); S.append(['dispv', p, a])
        elif r < 0.92:
            if e['vecs']:
                n = rng.choice([0, 0, 1, 2, 3, 5, 8])
                S.append(['setv', p, a, rng.choice(e['vecs']), n] + [hexf(exact_double(rng, -9, 9)) for _ in range(n)])
                S.append(['getv', p, a, rng.choice(e['vecs'])])
            else:
                S.append(['getv', p, a, rng.choice(badv)])
        elif r < 0.95:
            S.append(['setv', p, a, rng.choice(badv), 2, hexf(1.0), hexf(2.0)])
        else:
            S += sweep([(h, sol)], p, None, restore=False)
    S += sweep([(h, sol)], p, None, restore=False)
    return Execution(S, variant=variant, label='param_store:%s:%s' % (sol, p))


# ------------------------------------------------------------------------------------------------
def provided(sol, sigs_ok=None):
    return [tuple(c) for c in CAT[sol]['caps']]


def admissible_point(rng, sol, sig):
    """points inside the domain where every solution is defined (eta in (0,1), r>0, t>0, ...)"""
    n = sig.count('S')
    if sol == 'sod_1d':
        return [hexf(exact_double(rng, -0.9, 0.9)), hexf(exact_double(rng, 0.25, 0.75))][:n]
    return [hexf(exact_double(rng, 0.125, 0.875)) for _ in range(n)]


def gen_purity(rng, sol, apis=('cxx',), variant='exc', nev=10, noise=25):
    """C10: evaluate, do unrelated things (other evaluators, points, handles, precisions), re-evaluate."""
    e = CAT[sol]
    caps = provided(sol)
    other = rng.choice([n for n in NONFIX if n != sol])
    S = []
    hs = {'d': [('one', sol), ('two', sol), ('oth', other)], 'ld': [('one', sol), ('oth', other)]}
    for p in ('d', 'ld'):
        for h, s in hs[p]:
            S.append(['init', p, 'cxx', h, s])
    cb = [rng.choice(['const', 'arr', 'poly']), hexf(exact_double(rng, 0.5, 2)), hexf(exact_double(rng, 0.1, 0.9)), hexf(exact_double(rng, 0.1, 2))]
    evs = []
    for _ in range(nev):
        p = rng.choice(['d', 'd', 'ld'])
        fn, sig = rng.choice(caps)
        evs.append((p, fn, sig, admissible_point(rng, sol, sig), rng.randint(-1, e['dim'] + 2), cb))

    def run_evals(order, hsel):
        L = []
        lastsel = {}
        for (p, fn, sig, pt, di, cbk) in order:
            h = hsel(p)
            if lastsel.get(p) != h:
                L.append(['select', p, 'cxx', h]); lastsel[p] = h
            L.append(eval_line(p, pick_api(rng, p, apis, fn, sig), fn, sig, pt, di, cbk))
        return L
    for p in ('d', 'ld'):
        S += sweep(hs[p], p, 'one')
    S += run_evals(evs, lambda p: 'one')
    # noise
    for _ in range(noise):
        p = rng.choice(['d', 'ld'])
        r = rng.random()
        if r < 0.35:
            S.append(['select', p, 'cxx', rng.choice(['one', 'oth'])])
            fn, sig = rng.choice(all_overloads())
            S.append(eval_line(p, 'cxx', fn, sig, point(rng, sig), rng.randint(0, 4)))
        elif r < 0.6:
            S.append(['select', p, 'cxx', 'oth'])
            if CAT[other]['pars']:
                S.append(['setp', p, 'cxx', rng.choice(CAT[other]['pars']), hexf(exact_double(rng, 0.5, 3))])
        elif r < 0.8:
            S.append(['select', p, 'cxx', 'one'])
            fn, sig = rng.choice(caps)
            S.append(eval_line(p, 'cxx', fn, sig, admissible_point(rng, sol, sig), rng.randint(1, 3), cb))
        else:
            S.append(['init', p, 'cxx', 'tmp', rng.choice(NONFIX)])
    # the same evaluations again, shuffled, on the first handle and (double) on the second handle
    ev2 = list(evs); rng.shuffle(ev2)
    S += run_evals(ev2, lambda p: 'one')
    S += run_evals([x for x in evs if x[0] == 'd'], lambda p: 'two')
    for p in ('d', 'ld'):
        S += sweep(hs[p], p, 'one')
    return Execution(S, variant=variant, label='purity:%s' % sol)


# ------------------------------------------------------------------------------------------------
def gen_sentinel(rng, sol, variant='exc', per=2):
    """C15: every public overload the solution does not provide, at random arguments, both precisions."""
    e = CAT[sol]
    caps = set(map(tuple, e['caps'])) | set(map(tuple, e['fcaps']))
    S = []
    for p in ('d', 'ld'):
        S.append(['init', p, 'cxx', 'h', sol])
        if not e['fixture']:
            S += sweep([('h', sol)], p, None, restore=False)
        for fn, sig in all_overloads():
            if (fn, sig) in caps:
                continue
            for _ in range(per):
                pt = [hexf(exact_double(rng, -3, 3)) for ch in sig if ch == 'S']
                S.append(eval_line(p, 'cxx', fn, sig, pt, rng.randint(-1, 5)))
        if not e['fixture']:
            S += sweep([('h', sol)], p, None, restore=False)
    return Execution(S, variant=variant, label='sentinel:%s' % sol)


# ------------------------------------------------------------------------------------------------
def gen_catalogue(names, variant='exc'):
    """C14: per printed name: init, get_name, sanity, init_param, dimension, every documented evaluator
    at an interior point with default parameters; both precisions."""
    execs = []
    for n in names:
        S = [['printid', 'd'], ['printid', 'ld']]
        e = CAT.get(n)
        for p in ('d', 'ld'):
            S.append(['init', p, 'cxx', 'cat', n])
            S += [['name', p, 'cxx'], ['dim', p, 'cxx']]
            if e and not e['fixture']:
                S += [['sanity', p, 'cxx'], ['initp', p, 'cxx'], ['sanity', p, 'cxx']]
                for fn, sig in map(tuple, e['caps']):
                    pt = [hexf(v) for v in [0.375, 0.625, 0.4375, 0.5625][:sig.count('S')]]
                    for di in ([1, 2, 3][:max(1, e['dim'] if e['dim'] < 4 else 3)] if 'I' in sig else [1]):
                        S.append(eval_line(p, 'cxx', fn, sig, pt, di))
        execs.append(Execution(S, variant=variant, label='catalogue:%s' % n))
    return execs


# ------------------------------------------------------------------------------------------------
def gen_registry_random(rng, variant='exc', steps=120, apis=('cxx',)):
    """C12: long random histories over several handles (verbatim, deliberately similar), both
    precisions, re-initialisation, with observation sweeps."""
    handles = ['nick', 'Nick', 'nick ', 'n-ick', 'bob']
    reg = {'d': {}, 'ld': {}}; cur = {'d': None, 'ld': None}
    S = []
    sols = rng.sample(NONFIX, 3) + [rng.choice(NONFIX)]
    for _ in range(steps):
        p = rng.choice(['d', 'd', 'ld'])
        a = pick_api(rng, p, apis)
        r = rng.random()
        if r < 0.22 or not reg[p]:
            h = rng.choice(handles[:4]); s = rng.choice(sols)
            S.append(['init', p, a, h, s]); reg[p][h] = s; cur[p] = h
        elif r < 0.40:
            h = rng.choice(list(reg[p].keys()))
            S.append(['select', p, a, h]); cur[p] = h
        elif r < 0.62:
            s = reg[p][cur[p]]
            if CAT[s]['pars']:
                S.append(['setp', p, a, rng.choice(CAT[s]['pars']), hexf(exact_double(rng, -5, 5))])
        elif r < 0.75:
            s = reg[p][cur[p]]
            if CAT[s]['pars']:
                S.append(['getp', p, a, rng.choice(CAT[s]['pars'])])
        elif r < 0.80:
            S.append([rng.choice(['initp', 'purge', 'sanity']), p, a])
        elif r < 0.86:
            S.append(['list', p, a]); S.append(['name', p, a]); S.append(['dim', p, a])
        else:
            S += sweep(sorted(reg[p].items()), p, cur[p])
    for p in ('d', 'ld'):
        if reg[p]:
            S += sweep(sorted(reg[p].items()), p, cur[p])
    return Execution(S, variant=variant, label='registry_random')


# ------------------------------------------------------------------------------------------------
def gen_c_entry_points(rng, variant='exc'):
    """C17: every C evaluator symbol defined in cmasa.cpp, on a solution that provides it (and its C++
    twin right before/after), so that each of the ~80 evaluator wrappers is exercised at least once."""
    S = []
    by = {}
    for e in api()['c']:
        by.setdefault((e['fn'], e['sig']), []).append(e['cname'])
    i = 0
    for (fn, sig), cnames in sorted(by.items()):
        sols = [n for n in NONFIX if [fn, sig] in CAT[n]['caps']]
        if not sols:
            sols = [rng.choice(NONFIX)]       # nobody provides it: both interfaces must give the sentinel
        sol = rng.choice(sols)
        i += 1
        S.append(['init', 'd', 'c' if i % 2 else 'cxx', 'c%d' % (i % 3), sol])
        pt = admissible_point(rng, sol, sig)
        for cname in cnames:
            di = rng.randint(1, max(1, min(3, CAT[sol]['dim'])))
            cb = ['arr', hexf(1.5), hexf(0.5), hexf(2.0)]
            S.append(eval_line('d', 'cxx', fn, sig, pt, di, cb))
            S.append(eval_line('d', 'c', fn, sig, pt, di, cb) + [cname])
    return Execution(S, variant=variant, label='c_entry_points')


# ------------------------------------------------------------------------------------------------
# value histories (C01-C09, C20): admissible random parameter assignments, every parameter drawn
# independently, points in a bounded box
# ------------------------------------------------------------------------------------------------
def sgn(rng):
    return rng.choice([-1.0, 1.0])


def admissible_param(rng, sol, k):
    u = lambda lo, hi: exact_double(rng, lo, hi)
    if sol.startswith('heateq'):
        if k in ('k_0', 'cp_0', 'rho', 'k_1', 'k_2', 'cp_1', 'cp_2'):
            return u(0.3, 2.5)
        return sgn(rng) * u(0.3, 2.5)
    if k in ('L', 'Lx', 'Ly'):
        return u(0.5, 3.0)
    if k == 'Gamma':
        return u(1.2, 1.7)
    if k == 'R':
        return u(0.5, 3.0)
    if k in ('mu', 'k', 'nu'):
        return sgn(rng) * u(0.05, 0.5)
    if k.startswith('a_'):
        return u(0.3, 2.5)
    if k in ('rho_0',):
        return u(1.0, 2.0)
    if k in ('p_0',):
        return u(1.0, 3.0)
    if k.startswith('rho_') or k.startswith('p_'):
        return sgn(rng) * u(0.05, 0.25)
    if k.endswith('_0'):
        return sgn(rng) * u(0.3, 1.5)
    return sgn(rng) * u(0.1, 0.6)


def value_point(rng, sol, sig):
    n = sig.count('S')
    axi = sol.startswith('axi')
    pt = []
    for i in range(n):
        if axi and i == 0:
            pt.append(exact_double(rng, 0.3, 2.0))
        else:
            pt.append(exact_double(rng, -2.0, 2.0))
    nsp = CAT[sol]['dim'] if CAT[sol]['dim'] < 4 else 3
    if n > nsp:
        pt[-1] = exact_double(rng, 0.0, 2.0)
    return [hexf(v) for v in pt]


def gen_values(rng, sol, precs=('d', 'ld'), nassign=2, npts=3, evaluators=None, setter=None, variant='exc', paired=True):
    """set every parameter to an admissible random value, then evaluate every provided evaluator at random
    points; with paired=True the same assignment and points are used in both precisions (inputs are exact
    doubles, so both instantiations receive identical mathematical inputs)."""
    e = CAT[sol]
    caps = [tuple(c) for c in e['caps']] if evaluators is None else evaluators
    S = []
    for p in precs:
        S.append(['init', p, 'cxx', 'val', sol])
    for _ in range(nassign):
        vals = {k: (setter or admissible_param)(rng, sol, k) for k in e['pars']}
        pts = []
        for _ in range(npts):
            order = list(caps); rng.shuffle(order)
            for fn, sig in order:
                dis = [rng.randint(-1, e['dim'] + 2)] if 'I' in sig else [None]
                pts.append((fn, sig, value_point(rng, sol, sig), dis[0]))
        for p in precs:
            for k in e['pars']:
                S.append(['setp', p, 'cxx', k, hexf(vals[k])])
            for fn, sig, pt, di in pts:
                S.append(eval_line(p, 'cxx', fn, sig, pt, di))
    return Execution(S, variant=variant, label='values:%s' % sol)
