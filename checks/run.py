#!/usr/bin/env python3
"""checks/run.py <property> <quick|thorough> [--replay file]

Exit 0: the property held on everything explored (known findings are listed, not alarms).
Exit 1: a line `VIOLATION property=<id> replay=<path>` was printed.
Exit 2: infrastructure failure (never a verdict)."""
import sys, time, traceback
from common import *
import gen, replay


def context_of(exe, j):
    """Label a rejected event with the solution selected at that point (for finding keys only)."""
    reg = {'d': {}, 'ld': {}}; cur = {'d': None, 'ld': None}
    for ev in exe.events[:j]:
        p = ev.get('p')
        if ev.get('op') == 'init' and ev.get('end') == 'ret':
            name = ''.join(chr(c) for c in ev.get('sc', []))
            norm = name.lower().replace('-', '').replace(' ', '')
            reg[p][ev['h']] = norm; cur[p] = ev['h']
        elif ev.get('op') == 'select' and ev.get('end') == 'ret':
            cur[p] = ev['h']
    ev = exe.events[j] if j is not None and j < len(exe.events) else {}
    p = ev.get('p')
    return reg.get(p, {}).get(cur.get(p)) if p else None


def finding_key(r):
    ev = r.event or {}
    k = {'op': ev.get('op'), 'api': ev.get('api'), 'reason': r.reason, 'sol': context_of(r.exe, r.line_no)}
    if ev.get('op') == 'eval':
        k['fn'] = ev.get('fn'); k['sig'] = ev.get('sig')
    if ev.get('op') in ('getp', 'setp', 'getv', 'setv'):
        k['k'] = ev.get('k')
    if ev.get('end') not in (None, 'ret'):
        k['end'] = ev.get('end')
    return k


def matches(known, key):
    return all(key.get(a) == b for a, b in known.get('match', {}).items())


def report(pid, rejections, extra_violations=()):
    """Print KNOWN-FINDING / VIOLATION lines; returns number of (unlisted) violations."""
    kn = known_for(pid)
    nviol, seen_known, seen_keys = 0, set(), set()
    for r in rejections:
        key = finding_key(r)
        hit = [k for k in kn if matches(k, key)]
        if hit:
            if hit[0]['id'] not in seen_known:
                seen_known.add(hit[0]['id'])
                print('KNOWN-FINDING: property=%s %s' % (pid, hit[0]['what']))
            continue
        ks = canon_key(key)
        path = save_replay(pid, '%03d' % nviol, r.exe, extra=dict(key=key, line=r.line_no, event=r.event, tlc=r.tlc_out[-800:]))
        if ks not in seen_keys:
            seen_keys.add(ks)
            print('  rejected: %s at line %s of %s: %s' % (json.dumps(key), r.line_no, r.exe.label, json.dumps(r.event)[:400]))
        print('VIOLATION property=%s replay=%s' % (pid, path))
        nviol += 1
    for msg, exe in extra_violations:
        path = save_replay(pid, 'x%03d' % nviol, exe, extra=dict(message=msg))
        print('  ' + msg)
        print('VIOLATION property=%s replay=%s' % (pid, path))
        nviol += 1
    return nviol


def canon_key(k):
    return json.dumps(k, sort_keys=True)


def sample_of(execs, n=2, maxlines=12):
    out = []
    for e in execs[:n]:
        out.append(dict(label=e.label, variant=e.variant, calls=['\t'.join(map(str, l)) for l in e.script[:maxlines]],
                        first_events=[{k: v for k, v in ev.items() if k in ('op', 'p', 'api', 'f', 'ret', 'end', 'tags', 'live')} for ev in e.events[:4]]))
    return out


def distinct_nontrivial(execs):
    """distinct call shapes (op + arguments) that reached the library and returned or failed observably"""
    s = set()
    for e in execs:
        for ev in e.events:
            if ev.get('op') in ('end', 'fini', 'reset'):
                continue
            s.add((ev.get('op'), ev.get('p'), ev.get('api'), json.dumps(ev.get('f'))))
    return len(s)


def crashes(execs):
    """executions whose process died abnormally (signal, sanitizer report, unexpected exit code)"""
    bad = []
    for e in execs:
        ok_rc = (0, 1) if e.variant == 'exit' else (0,)
        if e.rc not in ok_rc:
            bad.append(('process ended abnormally rc=%s %s: %s' % (e.rc, e.label, (e.err or '')[-600:].replace('\n', ' | ')), e))
    return bad


# ================================================================================================
def run_trace_check(pid, tier_, execs, relax, oracle=False, level='exploration', rule='', assumptions=(), mc=None, extra_cov=None):
    t0 = time.time()
    wd = workdir(pid)
    run_executions(execs, wd)
    nlines, rej = validate_executions(execs, wd, relax=relax, oracle=oracle)
    nviol = report(pid, rej, crashes(execs))
    cov = dict(evaluations=sum(len(e.events) for e in execs), distinct_nontrivial=distinct_nontrivial(execs),
               rule=rule, samples=sample_of(execs), traces_validated_against_impl=len(execs),
               trace_lines_accepted=nlines, rejections=len(rej))
    if mc:
        cov.update(mc)
    if extra_cov:
        cov.update(extra_cov(execs) if callable(extra_cov) else extra_cov)
    write_evidence(pid, tier_, level, cov, list(assumptions), time.time() - t0, nviol)
    shutil.rmtree(wd, ignore_errors=True)
    return 1 if nviol else 0


COMMON_ASSUME = ['the driver (harness/driver.cpp) reports arguments, return values, stdout tags and the hook counter faithfully',
                 'TLC evaluates MasaTrace/Masa.tla correctly; the frozen catalogue spec/catalog.json states the intended catalogue']


def c12(tier_):
    rng = random.Random(seed())
    t0 = time.time()
    cfgs = [replay.mc_cfg(('d',), ('h1', 'h2'))]
    if tier_ == 'thorough':
        cfgs.append(replay.mc_cfg(('d',), ('h1', 'h2', 'h3')))
    cfgs.append(replay.mc_cfg(('d', 'ld'), ('h1',)))
    execs, st, tr, uniq = [], 0, 0, 0
    apij = mk.api_json('exc')['cxx']
    for cfg in cfgs:
        s, t, edges, _ = replay.explore(cfg, 'exc', timeout=3000)
        walks, nu = replay.cover_walks(edges)
        cx = replay.Concrete(rng, apij)
        execs += replay.build_executions(edges, walks, cx, 'exc', sweep_every=60, rng=rng)
        st += s; tr += t; uniq += nu
    for _ in range(20 if tier_ == 'quick' else 200):
        execs.append(gen.gen_registry_random(rng, steps=120 if tier_ == 'quick' else 300))
    return run_trace_check('C12', tier_, execs, relax=('live', 'memo'), level='model_checking',
        rule='every transition of the bounded registry model (2 handles; 2 precisions x 1 handle; thorough: 3 handles) replayed on the real library with a concretisation drawn by seed, plus random long histories over 4 similar handles and both precisions; distinct = distinct (call, arguments) shapes executed',
        assumptions=COMMON_ASSUME, mc=dict(states=st, transitions=tr, distinct_transitions_replayed=uniq, exhaustive=True))


def c11(tier_):
    rng = random.Random(seed())
    apij = mk.api_json('exc')['cxx']
    s, t, edges, _ = replay.explore(replay.mc_cfg(('d',), ('h1',)), 'exc')
    walks, nu = replay.cover_walks(edges)
    execs = []
    for _ in range(2 if tier_ == 'quick' else 12):
        cx = replay.Concrete(rng, apij)
        execs += replay.build_executions(edges, walks, cx, 'exc', sweep_every=25, rng=rng)
    reps = 1 if tier_ == 'quick' else 12
    for sol in NONFIX:
        for p in ('d', 'ld'):
            for _ in range(reps):
                execs.append(gen.gen_param_store(rng, sol, p, steps=60 if tier_ == 'quick' else 150))
    return run_trace_check('C11', tier_, execs, relax=('live', 'memo'), level='model_checking',
        rule='(a) every transition of the 1-handle bounded model (all set/get/init_param/purge/sanity/set_vec/get_vec/display steps with valid and invalid names, marker values, vectors of length 0..2) replayed on the real library; (b) seeded random parameter-store histories on every non-fixture catalogue entry in both precisions (arbitrary finite values incl. the exact marker, invalid names, vectors of length 0..8); every read-back is compared with the specification map by TLC. distinct = distinct (call, arguments) shapes',
        assumptions=COMMON_ASSUME + ['values are either exactly the marker or not within 1e-6 relative of it (the 1e-10 window of sanity_check is not observable)'],
        mc=dict(states=s, transitions=t, distinct_transitions_replayed=nu, exhaustive=True))


def c10(tier_):
    rng = random.Random(seed())
    execs = []
    for sol in NONFIX:
        for _ in range(1 if tier_ == 'quick' else 10):
            execs.append(gen.gen_purity(rng, sol, nev=10 if tier_ == 'quick' else 20, noise=25 if tier_ == 'quick' else 60))
    return run_trace_check('C10', tier_, execs, relax=('live',), level='exploration',
        rule='per non-fixture solution: a set of evaluations (provided evaluators, admissible points) is issued, then unrelated calls (other evaluators and arities, other points, other handles incl. a second handle of the same type, the other precision, set_param on another handle, further inits), then the same evaluations again in shuffled order and on the twin handle; the specification memo demands bit-identical results for identical (precision, solution, parameters, overload, arguments) and the sweeps demand unchanged parameters. distinct = distinct (call, arguments) shapes',
        assumptions=COMMON_ASSUME)


def c15(tier_):
    rng = random.Random(seed())
    execs = [gen.gen_sentinel(rng, e['name'], per=2 if tier_ == 'quick' else 8) for e in CATALOG]
    return run_trace_check('C15', tier_, execs, relax=('live', 'memo'), level='exploration',
        rule='every (catalogue entry, public C++ evaluator overload from masa.h.in) pair outside the entry capability set, at random arguments (per pair: 2 quick / 8 thorough), both precisions, with parameter sweeps before and after; Masa!Eval demands exactly -1.33, an ERROR tag, a normal return and unchanged state. distinct = distinct (call, arguments) shapes',
        assumptions=COMMON_ASSUME, extra_cov=dict(exhaustive_over_pairs=True))


def c14(tier_):
    exe = mk.build_driver('exc')
    wd = workdir('c14p')
    rc, ev, err = mk.run_driver(exe, [['printid', 'd'], ['printid', 'ld']], os.path.join(wd, 'p.ndjson'))
    printed = [n for e in ev if e.get('op') == 'printid' for n in e.get('out', [])]
    names = []
    for n in [e['name'] for e in CATALOG] + printed:
        if n not in names:
            names.append(n)
    shutil.rmtree(wd, ignore_errors=True)
    execs = gen.gen_catalogue(names)
    return run_trace_check('C14', tier_, execs, relax=('live', 'memo'), level='model_checking',
        rule='finite and complete: every name printed by masa_printid in either precision and every entry of the frozen catalogue: printid (order, uniqueness, both precisions equal), init, get_name, dimension, sanity_check, init_param, and every evaluator of the capability set at an interior point with default parameters (each gradient direction), both precisions. distinct = distinct (call, arguments) shapes',
        assumptions=COMMON_ASSUME, mc=dict(states=len(names), transitions=sum(len(e.script) for e in execs), exhaustive=True))


def c16(tier_):
    rng = random.Random(seed())
    apij = mk.api_json('exc')['cxx']
    handles = ('h1', 'h2') if tier_ == 'thorough' else ('h1',)
    execs, st, tr, uniq = [], 0, 0, 0
    # exit build: every fatal transition ends its own process; status and diagnostics are observed
    s, t, edges, _ = replay.explore(replay.mc_cfg(('d',), handles), 'exit')
    walks, nu = replay.cover_walks(edges)
    cx = replay.Concrete(rng, apij)
    execs += replay.build_executions(edges, walks, cx, 'exit', sweep_every=0, rng=rng)
    st += s; tr += t; uniq += nu
    # exception build: the walk continues after every caught failure, with a full sweep right after it
    s, t, edges, _ = replay.explore(replay.mc_cfg(('d', 'ld') if tier_ == 'thorough' else ('d',), ('h1', 'h2') if tier_ == 'quick' else ('h1',)), 'exc')
    walks, nu = replay.cover_walks(edges)
    cx = replay.Concrete(rng, apij)
    execs += replay.build_executions(edges, walks, cx, 'exc', sweep_every=40, rng=rng, sweep_after_fatal=0.25)
    st += s; tr += t; uniq += nu
    return run_trace_check('C16', tier_, execs, relax=('live', 'memo'), level='model_checking',
        rule='every transition of the bounded model in the exit() build (each fatal transition in its own process: exit status, diagnostics and the absence of any later effect are observed) and in the exception build (caught int, then sweeps, then the walk continues in the same process). distinct = distinct (call, arguments) shapes',
        assumptions=COMMON_ASSUME, mc=dict(states=st, transitions=tr, distinct_transitions_replayed=uniq, exhaustive=True),
        extra_cov=lambda ex: dict(fatal_events_observed=sum(1 for e in ex for ev in e.events if 'FATAL' in ev.get('tags', []))))


def c17(tier_):
    rng = random.Random(seed())
    apij = mk.api_json('exc')['cxx']
    s, t, edges, _ = replay.explore(replay.mc_cfg(('d',), ('h1', 'h2') if tier_ == 'thorough' else ('h1',)), 'exc')
    walks, nu = replay.cover_walks(edges)
    execs = []
    for _ in range(2 if tier_ == 'quick' else 6):
        cx = replay.Concrete(rng, apij)
        execs += replay.build_executions(edges, walks, cx, 'exc', sweep_every=40, rng=rng, apis=('cxx', 'c'))
    for sol in NONFIX:
        for _ in range(1 if tier_ == 'quick' else 6):
            execs.append(gen.gen_purity(rng, sol, apis=('cxx', 'c'), nev=12, noise=10))
            execs.append(gen.gen_param_store(rng, sol, 'd', apis=('cxx', 'c'), steps=40))
    execs.append(gen.gen_c_entry_points(rng))
    return run_trace_check('C17', tier_, execs, relax=('live',), level='model_checking',
        rule='the C entry points are the same actions of Masa.tla with p = d: every transition of the bounded model replayed with each double-precision call issued through the C symbol or the C++ <double> template at random; per solution purity histories and parameter-store histories with mixed C/C++ calls (memo: identical key => bit-identical value across the two interfaces; masa_get_name buffer; statuses; arrays of length 0..8); one sweep over all C evaluator symbols defined in cmasa.cpp. distinct = distinct (call, arguments) shapes',
        assumptions=COMMON_ASSUME, mc=dict(states=s, transitions=t, distinct_transitions_replayed=nu, exhaustive=True),
        extra_cov=lambda ex: dict(c_calls=sum(1 for e in ex for ev in e.events if ev.get('api') == 'c'), distinct_c_entry_points=len(set((ev.get('op'), ev.get('fn'), ev.get('sig'), (ev.get('f') or [None])[-1] if ev.get('op') == 'eval' else None) for e in ex for ev in e.events if ev.get('api') == 'c'))))


CHECKS = {'C10': c10, 'C11': c11, 'C12': c12, 'C14': c14, 'C15': c15, 'C16': c16, 'C17': c17}


def main():
    pid = sys.argv[1]
    tier_ = tier(sys.argv[2] if len(sys.argv) > 2 else None)
    try:
        rc = CHECKS[pid](tier_)
    except InfraError as e:
        print('ERROR infrastructure: %s' % e)
        sys.exit(2)
    except Exception:
        traceback.print_exc()
        print('ERROR infrastructure: unexpected exception')
        sys.exit(2)
    sys.exit(rc)


if __name__ == '__main__':
    main()
