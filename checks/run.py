#!/usr/bin/env python3
"""checks/run.py <property> <quick|thorough> [--replay file]

Exit 0: the property held on everything explored (known findings are listed, not alarms).
Exit 1: a line `VIOLATION property=<id> replay=<path>` was printed.
Exit 2: infrastructure failure (never a verdict)."""
import sys, time, traceback, re, subprocess
from common import *
import gen, replay


def context_of(exe, j):
    """Label a rejected event with the solution selected at that point (for finding keys only)."""
    reg = {'d': {}, 'ld': {}}; cur = {'d': None, 'ld': None}
    for ev in exe.events[:j]:
        p = ev.get('p')
        if ev.get('op') == 'init' and ev.get('end') == 'ret':
            name = ''.join(chr(c) for c in ev.get('sc', []))
            norm = name.lower().replace('-', '').replace(' ', '')
            reg[p][ev['h']] = norm; cur[p] = ev['h']
        elif ev.get('op') == 'select' and ev.get('end') == 'ret':
            cur[p] = ev['h']
    ev = exe.events[j] if j is not None and j < len(exe.events) else {}
    p = ev.get('p')
    return reg.get(p, {}).get(cur.get(p)) if p else None


def finding_key(r):
    ev = r.event or {}
    k = {'op': ev.get('op'), 'api': ev.get('api'), 'reason': r.reason, 'sol': context_of(r.exe, r.line_no)}
    if ev.get('op') == 'eval':
        k['fn'] = ev.get('fn'); k['sig'] = ev.get('sig')
    if ev.get('op') in ('getp', 'setp', 'getv', 'setv'):
        k['k'] = ev.get('k')
    if ev.get('end') not in (None, 'ret'):
        k['end'] = ev.get('end')
    if r.reason == 'acc':
        m = re.findall(r'"ACCFAIL (\w+) (\w+) (-?\d+) (-?\d+) max', r.tlc_out)
        if m:
            k['sol'], k['fn'] = m[0][0], m[0][1]
            k['median_bits_d'], k['median_bits_ld'] = int(m[0][2]), int(m[0][3])
    return k


def matches(known, key):
    return all(key.get(a) == b for a, b in known.get('match', {}).items())


def report(pid, rejections, extra_violations=(), start=0):
    """Print KNOWN-FINDING / VIOLATION lines; returns number of (unlisted) violations."""
    kn = known_for(pid)
    nviol, seen_known, seen_keys = 0, set(), set()
    for r in rejections:
        key = finding_key(r)
        # A recorded value deviation (keyed by solution and evaluator) is never a reason to overlook a rejection: the
        # evaluator is judged against its recorded variant system (or, where none could be established, not judged at
        # all), so a rejection there is a NEW deviation of the same evaluator.  The KNOWN-FINDING lines of the value
        # findings come from their own confirmation step.
        hit = [k for k in kn if matches(k, key) and not ('sol' in k.get('match', {}) and 'fn' in k.get('match', {}))]
        if hit:
            if hit[0]['id'] not in seen_known:
                seen_known.add(hit[0]['id'])
                print('KNOWN-FINDING: property=%s %s' % (pid, hit[0]['what']))
            continue
        ks = canon_key(key)
        path = save_replay(pid, '%03d' % (start + nviol), r.exe, extra=dict(key=key, line=r.line_no, event=r.event, tlc=r.tlc_out[-800:]))
        if ks not in seen_keys:
            seen_keys.add(ks)
            print('  rejected: %s at line %s of %s: %s' % (json.dumps(key), r.line_no, r.exe.label, json.dumps(r.event)[:400]))
        print('VIOLATION property=%s replay=%s' % (pid, path))
        nviol += 1
    for msg, exe in extra_violations:
        path = save_replay(pid, 'x%03d' % (start + nviol), exe, extra=dict(message=msg))
        print('  ' + msg)
        print('VIOLATION property=%s replay=%s' % (pid, path))
        nviol += 1
    return nviol


def canon_key(k):
    return json.dumps(k, sort_keys=True)


def sample_of(execs, n=2, maxlines=12):
    out = []
    for e in execs[:n]:
        out.append(dict(label=e.label, variant=e.variant, calls=['\t'.join(map(str, l)) for l in e.script[:maxlines]],
                        first_events=[{k: v for k, v in ev.items() if k in ('op', 'p', 'api', 'f', 'ret', 'end', 'tags', 'live')} for ev in e.events[:4]]))
    return out


def distinct_nontrivial(execs):
    """distinct call shapes (op + arguments) that reached the library and returned or failed observably"""
    s = set()
    for e in execs:
        for ev in e.events:
            if ev.get('op') in ('end', 'fini', 'reset'):
                continue
            s.add((ev.get('op'), ev.get('p'), ev.get('api'), json.dumps(ev.get('f'))))
    return len(s)


def crashes(execs):
    """executions whose process died abnormally (signal, sanitizer report, unexpected exit code)"""
    bad = []
    for e in execs:
        ok_rc = getattr(e, 'ok_rc', (0, 1) if e.variant == 'exit' else (0,))
        if e.rc not in ok_rc:
            bad.append(('process ended abnormally rc=%s %s: %s' % (e.rc, e.label, (e.err or '')[-600:].replace('\n', ' | ')), e))
    return bad


# ================================================================================================
SUITE_RULE = (' Thorough tier additionally: the repository\'s own test and example programs, UNMODIFIED, linked against the freshly built '
              'library through the tracing shim (GNU ld --wrap on every public entry point), every public call logged and the log validated '
              'by the same trace specification (evaluations thinned logarithmically).')


def with_suite(execs, tier_, sols=None):
    """thorough tier: add the traces of the repository's own programs (those that initialise one of sols; all if None)"""
    if tier_ != 'thorough' or os.environ.get('VERIF_NO_SUITE'):
        return list(execs), 0
    import suite
    sx, skipped = suite.suite_executions(sols, seed_=seed())
    return list(execs) + sx, len(sx)


def run_trace_check(pid, tier_, execs, relax, oracle=False, level='exploration', rule='', assumptions=(), mc=None, extra_cov=None, batch_lines=4000, suite=False, strict=()):
    t0 = time.time()
    wd = workdir(pid)
    nsuite = 0
    if suite:
        execs, nsuite = with_suite(execs, tier_)
        rule += SUITE_RULE
    run_executions(execs, wd)
    env = None
    if oracle:   # evaluators with a recorded known deviation are judged against their variant (as in the value checks)
        kf = os.path.join(wd, 'known.json')
        json.dump([[k['match']['sol'], k['match']['fn']] for k in KNOWN if k.get('status') == 'known' and 'sol' in k.get('match', {})], open(kf, 'w'))
        env = {'KNOWN': kf}
    nlines, rej = validate_executions(execs, wd, relax=relax, oracle=oracle, batch_lines=batch_lines, extra_env=env)
    REPLAY_CTX.clear(); REPLAY_CTX.update(relax=list(relax), oracle=oracle, known=json.load(open(env['KNOWN'])) if env else None)
    nviol = report(pid, rej, crashes(execs))
    if strict:      # executions validated with the memo in force (identical key => bit-identical value), no oracle
        strict = list(strict)
        run_executions(strict, wd)
        nl2, rej2 = validate_executions(strict, wd, relax=tuple(r for r in relax if r != 'memo'), oracle=False, batch_lines=batch_lines)
        REPLAY_CTX.clear(); REPLAY_CTX.update(relax=[r for r in relax if r != 'memo'], oracle=False, known=None)
        nviol += report(pid, rej2, crashes(strict), start=nviol)
        nlines += nl2; rej = rej + rej2; execs = execs + strict
    cov = dict(evaluations=sum(len(e.events) for e in execs), distinct_nontrivial=distinct_nontrivial(execs),
               rule=rule, samples=sample_of(execs), traces_validated_against_impl=len(execs),
               trace_lines_accepted=nlines, rejections=len(rej))
    if nsuite:
        cov['repository_programs_traced'] = nsuite
    if mc:
        cov.update(mc)
    if extra_cov:
        cov.update(extra_cov(execs) if callable(extra_cov) else extra_cov)
    write_evidence(pid, tier_, level, cov, list(assumptions), time.time() - t0, nviol)
    shutil.rmtree(wd, ignore_errors=True)
    return 1 if nviol else 0


COMMON_ASSUME = ['the driver (harness/driver.cpp) reports arguments, return values, stdout tags and the hook counter faithfully',
                 'TLC evaluates MasaTrace/Masa.tla correctly; the frozen catalogue spec/catalog.json states the intended catalogue']


def apalache_inductive():
    """thorough: the registry core of Masa.tla, typed (spec/MasaRegistryInd.tla), with an inductive invariant discharged by
    Apalache: SelValid, HeapExact, RegSound for 8 handles and histories of ANY length (TLC covers 2-3 handles).  A tool
    problem is reported as a note; a violated invariant is a broken specification (exit 2, never a verdict on MASA)."""
    wd = workdir('apalache')
    shutil.copy(os.path.join(SPEC, 'MasaRegistryInd.tla'), wd)
    res = {}
    for name, args in (('base', ['--init=Init', '--length=0']), ('step', ['--init=IndInit', '--length=1'])):
        try:
            p = subprocess.run(['apalache-mc', 'check', '--cinit=ConstInit', '--inv=IndInv'] + args + ['MasaRegistryInd.tla'], cwd=wd,
                               stdout=subprocess.PIPE, stderr=subprocess.STDOUT, text=True, timeout=900)
            out = p.stdout
        except Exception as ex:
            out = 'not run: %r' % ex
        if 'The outcome is: NoError' in out:
            res[name] = 'proved'
        elif 'The outcome is: Error' in out:
            shutil.rmtree(wd, ignore_errors=True)
            raise InfraError('MasaRegistryInd: the inductive invariant does not hold (%s):\n%s' % (name, out[-1500:]))
        else:
            res[name] = 'tool did not complete: ' + out[-200:].replace('\n', ' ')
    shutil.rmtree(wd, ignore_errors=True)
    return res


def c12(tier_):
    rng = random.Random(seed())
    t0 = time.time()
    # quick: the reduced alphabet (MC_Registry!Lite) on the multi-handle / two-precision instances; the full alphabet
    # is replayed on the 1-handle instance by C11 and here in the thorough tier
    lite = tier_ == 'quick'
    cfgs = [replay.mc_cfg(('d',), ('h1', 'h2'), lite=lite)]
    cfgs.append(replay.mc_cfg(('d', 'ld'), ('h1',), lite=lite))
    execs, st, tr, uniq = [], 0, 0, 0
    apij = mk.api_json('exc')['cxx']
    for cfg in cfgs:
        s, t, edges, _ = replay.explore(cfg, 'exc', timeout=3000)
        walks, nu = replay.cover_walks(edges)
        cx = replay.Concrete(rng, apij)
        execs += replay.build_executions(edges, walks, cx, 'exc', sweep_every=60, rng=rng)
        st += s; tr += t; uniq += nu
    sim = None
    if tier_ == 'thorough':
        # three handles (reduced alphabet): 1.46 million transitions -- model-checked in full by TLC (no emission), and 600 random
        # behaviours of 300 steps (TLC -simulate) replayed on the real library
        cfg3 = replay.mc_cfg(('d',), ('h1', 'h2', 'h3'), lite=True)
        s3, t3, _, _ = replay.explore(cfg3, 'exc', emit=False, timeout=3000)
        e3, w3 = replay.explore_sim(cfg3, 'exc', num=600, depth=300)
        execs += replay.build_executions(e3, w3, replay.Concrete(rng, apij), 'exc', sweep_every=60, rng=rng)
        st += s3; tr += t3
        sim = dict(three_handle_states=s3, three_handle_transitions=t3, simulated_behaviours=len(w3), simulated_transitions=len(e3))
    for i in range(20 if tier_ == 'quick' else 200):
        execs.append(gen.gen_registry_random(rng, steps=120 if tier_ == 'quick' else 300, apis=('cxx', 'c') if i % 2 else ('cxx',)))
    ind = apalache_inductive() if tier_ == 'thorough' else None
    twins = [gen.gen_twins(random.Random(seed() + 101 * i + j), sol) for i, sol in enumerate(NONFIX) for j in range(1 if tier_ == 'quick' else 4)]
    return run_trace_check('C12', tier_, execs, suite=True, relax=('live', 'memo'), level='model_checking', strict=twins, extra_cov=(dict(inductive_invariant_apalache=ind, three_handle_instance=sim) if ind else None),
        rule='every transition of the bounded registry model (2 handles; 2 precisions x 1 handle; quick: reduced alphabet Lite, thorough: full alphabet) replayed on the real library with a concretisation drawn by seed; thorough: additionally the 3-handle Lite instance, model-checked in full by TLC, and 600 random behaviours of it (TLC -simulate, 300 steps each) replayed; plus random long histories over 4 similar handles and both precisions; plus, per solution, twin histories (the same evaluations through a handle, a second handle of the same solution and the re-initialised first one, at the defaults and with every parameter set: bit-identical by the memo); distinct = distinct (call, arguments) shapes executed',
        assumptions=COMMON_ASSUME, mc=dict(states=st, transitions=tr, distinct_transitions_replayed=uniq, exhaustive=True))


def c11(tier_):
    rng = random.Random(seed())
    apij = mk.api_json('exc')['cxx']
    s, t, edges, _ = replay.explore(replay.mc_cfg(('d',), ('h1',)), 'exc')
    walks, nu = replay.cover_walks(edges)
    execs = []
    for _ in range(2 if tier_ == 'quick' else 12):
        cx = replay.Concrete(rng, apij)
        execs += replay.build_executions(edges, walks, cx, 'exc', sweep_every=25, rng=rng)
    reps = 1 if tier_ == 'quick' else 12
    for sol in [e['name'] for e in CATALOG]:          # the two self-test fixtures included (failing init_var, Masa!InitParam)
        for p in ('d', 'ld'):
            for _ in range(reps):
                execs.append(gen.gen_param_store(rng, sol, p, steps=60 if tier_ == 'quick' else 150))
    for e in execs:
        e.oracle = False       # arbitrary (inadmissible) parameter values: the numeric oracle does not apply
    # "evaluators use the values last set": parameters set (every one, independently), evaluated, set again,
    # evaluated again at the same points -- judged by the numeric oracle
    for sol in ALLVAL:
        execs.append(gen.gen_values(rng, sol, nassign=2 if tier_ == 'quick' else 6, npts=1))
    # ... and by the memo where the oracle does not reach (parameter combinations outside the physical relation, e.g. sod_1d's mu
    # set without Gamma): after evaluations, parameters are changed, evaluated, and a fresh handle given the same values directly
    # must answer bit-identically
    pur = [gen.gen_purity(random.Random(seed() + 211 * i), sol, nev=4, noise=6)[0] for i, sol in enumerate(NONFIX)]
    return run_trace_check('C11', tier_, execs, suite=True, relax=('live', 'memo'), oracle=True, level='model_checking', strict=pur,
        rule='(a) every transition of the 1-handle bounded model (all set/get/init_param/purge/sanity/set_vec/get_vec/display steps with valid and invalid names, marker values, vectors of length 0..2) replayed on the real library; (b) seeded random parameter-store histories on every catalogue entry (the two self-test fixtures with their failing init_var included) in both precisions (arbitrary finite values incl. the exact marker, invalid names, vectors of length 0..8); every read-back is compared with the specification map by TLC; (c) on every solution with an oracle every parameter is set, evaluators are called, parameters are set again and the evaluators called at the same points, judged by the numeric oracle (evaluators use the values last set). distinct = distinct (call, arguments) shapes',
        assumptions=COMMON_ASSUME + ['values are either exactly the marker or not within 1e-6 relative of it (the 1e-10 window of sanity_check is not observable)'],
        mc=dict(states=s, transitions=t, distinct_transitions_replayed=nu, exhaustive=True, model_actions=replay.action_counts(edges)))


def c10(tier_):
    rng = random.Random(seed())
    execs = []
    grp = 0
    for sol in NONFIX:
        for _ in range(2 if tier_ == 'quick' else 10):
            grp += 1
            execs += gen.gen_purity_pair(rng, sol, grp, nev=6 if tier_ == 'quick' else 20, noise=20 if tier_ == 'quick' else 60)
    return run_trace_check('C10', tier_, execs, suite=True, relax=('live',), level='exploration',
        rule='per non-fixture solution a pair of processes sharing the specification memo: parameters P set, EVERY provided evaluator (plus random extra points) evaluated; unrelated calls (other evaluators and arities, points, handles, the other precision, further inits); some parameters changed (P to P2; for sod_1d only mu), the same evaluations at the same points, parameters restored and the evaluations repeated shuffled; a fresh handle given P2 directly; the twin process runs the phases in reverse order. Masa!Eval memo demands bit-identical results for identical (precision, solution, parameters, overload, arguments) across all of it, and the sweeps demand unchanged parameters. distinct = distinct (call, arguments) shapes',
        assumptions=COMMON_ASSUME)


def c15(tier_):
    rng = random.Random(seed())
    execs = [gen.gen_sentinel(rng, e['name'], per=2 if tier_ == 'quick' else 8) for e in CATALOG]
    return run_trace_check('C15', tier_, execs, suite=True, relax=('live', 'memo'), level='exploration',
        rule='every (catalogue entry, public C++ evaluator overload from masa.h.in) pair outside the entry capability set, at random arguments (per pair: 2 quick / 8 thorough), both precisions, with parameter sweeps before and after; Masa!Eval demands exactly -1.33, an ERROR tag, a normal return and unchanged state. distinct = distinct (call, arguments) shapes',
        assumptions=COMMON_ASSUME, extra_cov=dict(exhaustive_over_pairs=True))


def c14(tier_):
    exe = mk.build_driver('exc')
    wd = workdir('c14p')
    rc, ev, err = mk.run_driver(exe, [['printid', 'd'], ['printid', 'ld']], os.path.join(wd, 'p.ndjson'))
    printed = [n for e in ev if e.get('op') == 'printid' for n in e.get('out', [])]
    names = []
    for n in [e['name'] for e in CATALOG] + printed:
        if n not in names:
            names.append(n)
    shutil.rmtree(wd, ignore_errors=True)
    execs = gen.gen_catalogue(names) + gen.gen_reinit_same(names)
    return run_trace_check('C14', tier_, execs, suite=True, relax=('live', 'memo'), level='model_checking',
        rule='finite and complete: every name printed by masa_printid in either precision and every entry of the frozen catalogue: printid (order, uniqueness, both precisions equal), init, get_name, dimension, sanity_check, init_param, and every evaluator of the capability set at an interior point with default parameters (each gradient direction), both precisions. distinct = distinct (call, arguments) shapes',
        assumptions=COMMON_ASSUME, mc=dict(states=len(names), transitions=sum(len(e.script) for e in execs), exhaustive=True))


def c16(tier_):
    rng = random.Random(seed())
    apij = mk.api_json('exc')['cxx']
    handles = ('h1', 'h2') if tier_ == 'thorough' else ('h1',)
    execs, st, tr, uniq = [], 0, 0, 0
    # exit build: every fatal transition ends its own process; status and diagnostics are observed
    s, t, edges, _ = replay.explore(replay.mc_cfg(('d',), handles, testdefault=True), 'exit')
    walks, nu = replay.cover_walks(edges)
    cx = replay.Concrete(rng, apij)
    execs += replay.build_executions(edges, walks, cx, 'exit', sweep_every=0, rng=rng)
    st += s; tr += t; uniq += nu
    # exception build: the walk continues after every caught failure, with a full sweep right after it
    lite = tier_ == 'quick'
    for cfg in ([replay.mc_cfg(('d',), ('h1', 'h2'), lite=lite), replay.mc_cfg(('d', 'ld'), ('h1',), lite=lite)]):
        s, t, edges, _ = replay.explore(cfg, 'exc')
        walks, nu = replay.cover_walks(edges)
        cx = replay.Concrete(rng, apij)
        execs += replay.build_executions(edges, walks, cx, 'exc', sweep_every=40, rng=rng, sweep_after_fatal=0.25, apis=('cxx', 'c'))      # double-precision calls through the C symbol or the template, at random
        st += s; tr += t; uniq += nu
    execs += gen.gen_unknown_handles('exc') + gen.gen_unknown_handles('exit')
    return run_trace_check('C16', tier_, execs, suite=True, relax=('live', 'memo'), level='model_checking',
        rule='unknown-handle spellings (empty, blank, other case, blank appended, cut short, 300 characters) selected in four registry states (never initialised, only the other precision, one handle, two handles) through the three interfaces in both builds; every transition of the bounded model in the exit() build (each fatal transition in its own process: exit status, diagnostics and the absence of any later effect are observed) and in the exception build (caught int, then sweeps, then the walk continues in the same process). distinct = distinct (call, arguments) shapes',
        assumptions=COMMON_ASSUME, mc=dict(states=st, transitions=tr, distinct_transitions_replayed=uniq, exhaustive=True),
        extra_cov=lambda ex: dict(fatal_events_observed=sum(1 for e in ex for ev in e.events if 'FATAL' in ev.get('tags', []))))


def c17(tier_):
    rng = random.Random(seed())
    apij = mk.api_json('exc')['cxx']
    s, t, edges, _ = replay.explore(replay.mc_cfg(('d',), ('h1', 'h2') if tier_ == 'thorough' else ('h1',)), 'exc')
    walks, nu = replay.cover_walks(edges)
    execs = []
    for _ in range(2 if tier_ == 'quick' else 6):
        cx = replay.Concrete(rng, apij)
        execs += replay.build_executions(edges, walks, cx, 'exc', sweep_every=40, rng=rng, apis=('cxx', 'c'))
    if tier_ == 'quick':
        # two handles (reduced alphabet): selections made through one interface and undone through the other
        s2, t2, edges2, _ = replay.explore(replay.mc_cfg(('d',), ('h1', 'h2'), lite=True), 'exc')
        walks2, nu2 = replay.cover_walks(edges2)
        execs += replay.build_executions(edges2, walks2, replay.Concrete(rng, apij), 'exc', sweep_every=40, rng=rng, apis=('cxx', 'c'))
        s += s2; t += t2; nu += nu2
    # every interleaving of the two interfaces over "make H current, move the selection to G, select H again"
    for a1 in ('c', 'cxx'):
        for a2 in ('c', 'cxx'):
            for a3 in ('c', 'cxx'):
                for first in ('init', 'select'):
                    S = [['init', 'd', 'cxx', 'G', 'euler_2d'], ['init', 'd', 'cxx', 'H', 'euler_1d'], ['setp', 'd', 'cxx', 'u_0', hexf(7.25)]]
                    S.append(['init', 'd', a1, 'H', 'euler_1d'] if first == 'init' else ['select', 'd', a1, 'H'])
                    S += [['setp', 'd', a1, 'u_0', hexf(1.5)], ['select', 'd', a2, 'G'], ['name', 'd', a3], ['select', 'd', a3, 'H'],
                          ['name', 'd', 'cxx'], ['name', 'd', 'c'], ['getp', 'd', a3, 'u_0'], ['dim', 'd', 'c'], ['list', 'd', a2]]
                    execs.append(Execution(S, variant='exc', label='interleave:%s%s%s' % (a1, a2, a3)))
    for sol in NONFIX:
        for _ in range(1 if tier_ == 'quick' else 6):
            execs.append(gen.gen_purity(rng, sol, apis=('cxx', 'c'), nev=8, noise=10)[0])
            execs.append(gen.gen_param_store(rng, sol, 'd', apis=('cxx', 'c'), steps=40))
    execs.append(gen.gen_c_entry_points(rng))
    execs += [gen.gen_registry_random(rng, steps=100, apis=('cxx', 'c')) for _ in range(4 if tier_ == 'quick' else 30)]
    return run_trace_check('C17', tier_, execs, suite=True, relax=('live',), level='model_checking',
        rule='the C entry points are the same actions of Masa.tla with p = d: every transition of the bounded model replayed with each double-precision call issued through the C symbol or the C++ <double> template at random; per solution purity histories and parameter-store histories with mixed C/C++ calls (memo: identical key => bit-identical value across the two interfaces; masa_get_name buffer; statuses; arrays of length 0..8); one sweep over all C evaluator symbols defined in cmasa.cpp. distinct = distinct (call, arguments) shapes',
        assumptions=COMMON_ASSUME, mc=dict(states=s, transitions=t, distinct_transitions_replayed=nu, exhaustive=True),
        extra_cov=lambda ex: dict(c_calls=sum(1 for e in ex for ev in e.events if ev.get('api') == 'c'), distinct_c_entry_points=len(set((ev.get('op'), ev.get('fn'), ev.get('sig'), (ev.get('f') or [None])[-1] if ev.get('op') == 'eval' else None) for e in ex for ev in e.events if ev.get('api') == 'c'))))


# ================================================================================================
# value properties: the specification's numeric oracle judges every logged evaluator result
# ================================================================================================
HEAT = [e['name'] for e in CATALOG if e['name'].startswith('heateq')]
EULER = ['euler_1d', 'euler_2d', 'euler_3d', 'euler_transient_1d', 'euler_transient_2d', 'euler_transient_3d', 'axisymmetric_euler', 'axi_euler_transient']
NS = ['navierstokes_2d_compressible', 'navierstokes_3d_compressible', 'axisymmetric_navierstokes_compressible', 'axi_cns_transient', 'navierstokes_4d_compressible_powerlaw']
GRADSOLS = ['euler_1d', 'euler_2d', 'euler_3d', 'navierstokes_2d_compressible', 'navierstokes_3d_compressible', 'navierstokes_4d_compressible_powerlaw']
ALLVAL = HEAT + EULER + NS + ['laplace_2d', 'burgers_equation', 'rans_sa', 'fans_sa_transient_free_shear', 'fans_sa_steady_wall_bounded', 'euler_chem_1d', 'sod_1d', 'cp_normal', 'radiation_integrated_intensity']
VAL_ASSUME = COMMON_ASSUME + [
    'spec/MasaReal.java implements the real arithmetic of MasaReal.tla (45 digits); cross-checked by MC_Oracle',
    'admissible inputs: parameters drawn independently as exact doubles in the boxes of checks/gen.py (rho, p, T, nu_sa > 0; L != 0; Gamma > 1; sod mu = (Gamma-1)/(Gamma+1); points in a bounded box, r > 0, Sod points 1e-3 away from wave fronts)',
    'tolerance |got - exact| <= 2^K u_p mag with mag the first-order running error scale of the expression (MasaReal.tla); K = 14 (identity), K = 6 (C09 accuracy)']


def sources_and_exact(sol):
    return [tuple(c) for c in CAT[sol]['caps'] if not c[0].startswith('grad_')]


def grads(sol):
    return [tuple(c) for c in CAT[sol]['caps'] if c[0].startswith('grad_')]


def known_value_keys(pid):
    return [[k['match']['sol'], k['match']['fn']] for k in known_for(pid) if 'sol' in k.get('match', {}) and 'fn' in k.get('match', {})]


def value_check(pid, tier_, plan, kbits=14, rule='', extra_execs=(), all_known=False, mix=False, accstat=True, zeros=True, fields_off=False):
    """plan: list of (solution, evaluators or None, nassign, npts)."""
    t0 = time.time()
    rng = random.Random(seed())
    execs = []
    for sol, evs, na, npt in plan:        # at most 6 assignments and about 700 evaluations per process (one TLC batch must stay small)
        nev = len(evs) if evs is not None else len(CAT[sol]['caps'])
        per = max(1, int((npt + 1.5) * nev * 2))
        chunk = max(1, min(6, 700 // per))
        oat = min(10 if tier_ == 'quick' else 40, max(4, 500 // (nev * 2)))
        left = na
        while left > 0:
            execs.append(gen.gen_values(rng, sol, nassign=min(chunk, left), npts=npt, evaluators=evs, mix=mix, oat=oat if left <= chunk else 0))
            left -= chunk
    execs += list(extra_execs)
    # exact zeros: one assignment per zeroable parameter with only that parameter exactly 0 (all of them for solutions with
    # at most 48 such parameters -- every solution but two -- and in the thorough tier, a random 8 otherwise), one assignment
    # with a random third of them 0, and every PAIR of them for the small solutions
    for sol, evs, na, npt in plan:
        ks = gen.zeroable(sol) if zeros else []
        if not ks:
            continue
        pick = list(ks) if (len(ks) <= 48 or tier_ == 'thorough') else rng.sample(ks, 8)
        zp = [{k} for k in pick] + [set(k for k in ks if rng.random() < 0.33)]
        # ... and every PAIR of them for the small solutions (a guard on two parameters at once)
        if len(ks) <= (16 if tier_ == 'quick' else 24):
            zp += [{a, b} for i, a in enumerate(ks) for b in ks[i + 1:]]
        for i in range(0, len(zp), 6):
            execs.append(gen.gen_values(rng, sol, nassign=len(zp[i:i + 6]), npts=1, evaluators=evs, zero_plan=zp[i:i + 6]))
            execs[-1].label = 'zeros:%s' % sol
    # long double parameters that no double holds (all 64 mantissa bits in use): the long double interface alone
    for sol, evs, na, npt in plan:
        if sol not in ('sod_1d',):
            execs.append(gen.gen_values(rng, sol, precs=('ld',), nassign=2, npts=1, evaluators=evs, wide=True))
            execs[-1].label = 'wide:%s' % sol
    # ties: two parameters of the same kind exactly equal (all similar-name pairs of a solution with at most 80 of them, a
    # systematic third of them -- chosen by the seed -- otherwise, in both tiers)
    for sol, evs, na, npt in (plan if zeros else []):
        if gen.purity_picker(sol) is gen.around_default or sol in ('sod_1d', 'cp_normal', 'navierstokes_4d_compressible_powerlaw'):
            continue
        prs = gen.similar_pairs(sol)
        if len(prs) > 80:
            prs = prs[(seed() % 3)::3]
        tp = [[pr] for pr in prs]
        for i in range(0, len(tp), 6):
            execs.append(gen.gen_values(rng, sol, nassign=len(tp[i:i + 6]), npts=1, evaluators=evs, tie_plan=tp[i:i + 6]))
            execs[-1].label = 'ties:%s' % sol
    # length scales far outside the usual range (2^-34, 2^-29, 2^24 times the drawn value; negative), points in proportion; and points
    # with coordinates exactly 0
    for sol, evs, na, npt in (plan if zeros else []):
        if gen.purity_picker(sol) is not gen.admissible_param:
            continue
        ls = [k for k in CAT[sol]['pars'] if k in ('L', 'Lx', 'Ly', 'Lz')]
        sp = [{k: f} for k in ls for f in (2.0 ** -34, 2.0 ** -29, 2.0 ** 24, -1.0)] + ([{k: 2.0 ** -31 for k in ls}] if len(ls) > 1 else [])
        if sp:
            execs.append(gen.gen_values(rng, sol, nassign=len(sp), npts=1, evaluators=evs, scale_plan=sp))
            execs[-1].label = 'lengths:%s' % sol
        execs.append(gen.gen_values(rng, sol, nassign=1, npts=0, evaluators=evs, origin=True))
        execs[-1].label = 'origin:%s' % sol
    # one whole field switched off (all its amplitudes exactly 0, the constant part included), one field at a time and two at a
    # time: only where nothing but exact fields and gradients is evaluated (the source terms divide by rho and T)
    if fields_off:
        for sol, evs, na, npt in plan:
            G = gen.field_groups(sol)
            assert all(c[0].startswith('exact_') or c[0].startswith('grad_') for c in evs)
            fs = sorted(G)
            zp = [set(G[f]) for f in fs] + [set(G[a]) | set(G[b]) for i, a in enumerate(fs) for b in fs[i + 1:]]
            for i in range(0, len(zp), 6):
                execs.append(gen.gen_values(rng, sol, nassign=len(zp[i:i + 6]), npts=1, evaluators=evs, zero_plan=zp[i:i + 6]))
                execs[-1].label = 'fields-off:%s' % sol
    # exact fields and gradients at the zeros / extrema of every trigonometric factor
    for sol, evs, na, npt in plan:
        if gen.purity_picker(sol) is gen.admissible_param and sol != 'navierstokes_4d_compressible_powerlaw':
            cheap = [c for c in (evs or map(tuple, CAT[sol]['caps'])) if c[0].startswith('exact_') or c[0].startswith('grad_')]
            sp = gen.gen_special_points(rng, sol, cheap) if cheap else None
            if sp is not None:
                execs.append(sp)
    # the library's own default parameters (the inputs of every test and example of the repository)
    execs += [gen.gen_default_values(rng, sol, npts=max(2, npt), evaluators=evs) for sol, evs, na, npt in plan]
    # thorough: the repository's own programs that use these solutions, traced through the shim, judged by the same oracle
    execs, nsuite = with_suite(execs, tier_, [p[0] for p in plan])
    if nsuite:
        rule += SUITE_RULE
    wd = workdir(pid)
    run_executions(execs, wd)
    kn = [k for k in KNOWN if k.get('status') == 'known' and 'sol' in k.get('match', {}) and (all_known or k.get('property') == pid)]
    keys = [[k['match']['sol'], k['match']['fn']] for k in kn]
    kf = os.path.join(wd, 'known.json')
    json.dump(keys, open(kf, 'w'))
    env = {'KNOWN': kf, 'KBITS': str(kbits)}
    if accstat:
        env['ACCSTAT'] = '1'
    nlines, rej = validate_executions(execs, wd, relax=('live', 'memo'), oracle=True, batch_lines=450, extra_env=env)
    # an accuracy-statistics rejection is a statistical statement: it is reported only if it repeats on a fresh
    # sample ten times as large of the same (solution, evaluator)
    confirmed = []
    for x in rej:
        if x.reason != 'acc':
            confirmed.append(x); continue
        k = finding_key(x)
        evs = [c for c in map(tuple, CAT[k['sol']]['caps']) if c[0] == k['fn']] if k.get('sol') in CAT else None
        if not evs:
            confirmed.append(x); continue
        big = [gen.gen_values(random.Random(seed() + 1000 + i), k['sol'], nassign=20, npts=2, evaluators=evs, mix=mix) for i in range(2)]
        run_executions(big, wd)
        _, rj2 = validate_executions(big, wd, relax=('live', 'memo'), oracle=True, batch_lines=2000, extra_env=env)
        if any(y.reason in ('acc', 'value') for y in rj2):      # the larger sample shows it too (statistic or tolerance)
            confirmed.append(x)
        else:
            print('note: accuracy statistic of %s %s exceeded its screening threshold on %d samples but not on the confirmation sample; not reported' % (k['sol'], k['fn'], 10))
    rej = confirmed
    REPLAY_CTX.clear(); REPLAY_CTX.update(relax=['live', 'memo'], oracle=True, known=keys, kbits=kbits)
    nviol = report(pid, rej, crashes(execs))
    # known findings of this property: confirm each still reproduces against the property's own operator
    for k in kn:
        if k.get('property') != pid:
            continue
        sol, fn = k['match']['sol'], k['match']['fn']
        evs = [c for c in map(tuple, CAT[sol]['caps']) if c[0] == fn]
        ex = [gen.gen_values(random.Random(seed() + 7), sol, nassign=2, npts=2, evaluators=evs, precs=('d',))]
        run_executions(ex, wd)
        json.dump([], open(kf + '.none', 'w'))
        _, rj = validate_executions(ex, wd, relax=('live', 'memo'), oracle=True, extra_env={'KNOWN': kf + '.none', 'KBITS': str(kbits)}, max_rejections=1)
        if any(x.reason == 'value' for x in rj):
            print('KNOWN-FINDING: property=%s %s' % (pid, k['what']))
        else:
            print('note: known finding %s no longer reproduces on this tree' % k['id'])
    nev = sum(1 for e in execs for ev in e.events if ev.get('op') == 'eval')
    dist = len(set((e.label, ev.get('p'), ev.get('fn'), ev.get('sig'), json.dumps(ev.get('a')), ev.get('di'), json.dumps(ev.get('v'))) for e in execs for ev in e.events if ev.get('op') in ('eval',)))
    cov = dict(evaluations=nev, distinct_nontrivial=dist,
               rule=rule + ' distinct_nontrivial = distinct (solution, precision, evaluator, point, direction) tuples evaluated with a non-default random parameter assignment and judged by the oracle',
               samples=sample_of(execs, n=2, maxlines=8), traces_validated_against_impl=len(execs), trace_lines_accepted=nlines,
               rejections=len(rej), solutions=sorted(set(p[0] for p in plan)), tolerance_bits=kbits, known_deviations_tolerated=keys)
    if nsuite:
        cov['repository_programs_traced'] = nsuite
    write_evidence(pid, tier_, 'exploration', cov, VAL_ASSUME, time.time() - t0, nviol)
    shutil.rmtree(wd, ignore_errors=True)
    return 1 if nviol else 0


def reps(tier_, q, t):
    return q if tier_ == 'quick' else t


def c01(tier_):
    na, npt = reps(tier_, (3, 3), (60, 6))
    return value_check('C01', tier_, [(s, sources_and_exact(s), na, npt) for s in HEAT],
        rule='12 heat solutions x {double, long double}: every parameter drawn independently, points in [-2,2]^d x [0,2]; source_t judged against rho cp(T) T_t - div(k(T) grad T) of the documented cosine field, exact_t against the field.')


def c02(tier_):
    na, npt = reps(tier_, (3, 2), (40, 5))
    return value_check('C02', tier_, [(s, sources_and_exact(s), na, npt) for s in EULER],
        rule='8 Euler-family solutions x 2 precisions: mass/momentum/energy sources judged against the residual of the conservation laws (cylindrical form with 1/r terms for the axisymmetric pair) on the documented fields; exact fields against the documented forms.')


def c03(tier_):
    na, npt = reps(tier_, (2, 2), (25, 4))
    return value_check('C03', tier_, [(s, sources_and_exact(s), na, npt) for s in NS],
        rule='5 viscous solutions x 2 precisions (power-law: all ~200 parameters non-zero): sources judged against the compressible Navier-Stokes residual (Newtonian stress, Fourier flux, ideal gas; power-law transport; cylindrical form). Evaluators listed as known findings are judged against their recorded variant system instead.')


def c04(tier_):
    na, npt = reps(tier_, (4, 4), (80, 8))
    return value_check('C04', tier_, [(s, None, na, npt) for s in ('laplace_2d', 'burgers_equation')],
        rule='laplace_2d: source_f vs Laplacian of the documented phi; burgers_equation: source_u/v(x,y,t) vs u_t+(uu)_x+(uv)_y, v_t+(uv)_x+(vv)_y of the documented fields, exact fields in both arities.')


def c05(tier_):
    na, npt = reps(tier_, (3, 3), (40, 6))
    return value_check('C05', tier_, [(s, None, na, npt) for s in ('rans_sa', 'fans_sa_transient_free_shear', 'fans_sa_steady_wall_bounded')],
        rule='rans_sa, fans_sa_transient_free_shear (2- and 3-argument forms), fans_sa_steady_wall_bounded x 2 precisions: sources judged against the RANS/FANS equations closed with Spalart-Allmaras (f_v1 differentiated, Johnson-Allmaras limiter, wall destruction, conservative diffusion, c_b2 term); time amplitudes non-zero.')


def c06(tier_):
    na, npt = reps(tier_, (4, 4), (80, 8))
    return value_check('C06', tier_, [('euler_chem_1d', None, na, npt)],
        rule='euler_chem_1d x 2 precisions with callbacks K_eq(T) from a named family (constant, Arrhenius-like, quadratic): species sources vs d(rho_s u)/dx -/+ production, momentum and energy vs the two-species thermally perfect Euler residual.')


def c07(tier_):
    na, npt = reps(tier_, (3, 4), (40, 8))
    return value_check('C07', tier_, [(s, grads(s) + [c for c in sources_and_exact(s) if c[0].startswith('exact_')], na, npt) for s in GRADSOLS], fields_off=True,
        rule='every grad_* evaluator of euler_1d/2d/3d, navierstokes_2d/3d, power-law x 2 precisions, direction index in -1..dimension+2: component i vs the i-th partial derivative of the documented exact field (jet), out-of-range index vs the error value (-1; NaN for the power-law solution).')


def c08(tier_):
    na, npt = reps(tier_, (5, 5), (100, 10))
    return value_check('C08', tier_, [('sod_1d', [('source_rho', 'SS'), ('source_rho_u', 'SS')], na, npt), ('cp_normal', None, na, npt)],
        rule='sod_1d: density and momentum vs the exact Riemann solution (p* by 150 bisections at 45 digits; rarefaction, contact, shock) for random Gamma, x, t>0, points within 1e-3 of a front not judged; cp_normal: prior/posterior/likelihood/loglikelihood/moments 0..20/posterior mean and variance vs the conjugate normal formulas for random m, sigma, sigma_d and data vectors of length 1..8.')


def c09(tier_):
    na, npt = reps(tier_, (4, 2), (30, 4))
    plan = [(s, None, na, npt) for s in ALLVAL if s != 'sod_1d'] + [('sod_1d', [('source_rho', 'SS'), ('source_rho_u', 'SS')], na, npt)]
    plan.append(('navierstokes_ablation_1d_steady', None, na, npt))
    gen.FULL_MANTISSA[0] = True      # generic 53-bit inputs: sums and products of the inputs are inexact in double
    return value_check('C09', tier_, plan, kbits=6, all_known=True, mix=True, accstat=True, zeros=False,      # exact zeros belong to C01-C08
       
        rule='all solutions of C01-C08, each assignment and point evaluated in both precisions with identical (exactly representable) inputs; transport coefficients and velocity amplitudes rescaled by random decades so that different groups of terms dominate, inputs generic 53-bit doubles; each result must be finite and within 2^6 u_p mag of the 45-digit oracle value (u_d = 2^-53, u_ld = 2^-64), hence double and long double agree to double precision; and per (solution, evaluator) the median error of the long double results, in long double roundoffs, must not exceed the median error of the double results, in double roundoffs, by more than 4 bits (history variable acc of MasaTrace): long double is not limited to double accuracy.')


def c20(tier_):
    t0 = time.time()
    rng = random.Random(seed())
    na, npt = reps(tier_, (2, 3), (20, 6))
    execs = [gen.gen_reduction(rng, *r, npts=npt, nassign=na) for r in gen.reductions()]
    return run_trace_check('C20', tier_, execs, relax=('live', 'memo'), oracle=True, level='exploration',
        rule='22 reductions (3D->2D Euler and NS with z amplitudes and w zero; NS->Euler with mu=k=0; transient->steady Euler; unsteady->steady heat; variable->constant heat), the two solutions on two handles of one process, shared parameters random, both precisions; the trace specification history variable pairs demands that the two values of a pair agree within 2^8 u_p mag and both are judged by the oracle. distinct = distinct (call, arguments) shapes',
        assumptions=VAL_ASSUME, extra_cov=lambda ex: dict(pairs=sum(1 for e in ex for ev in e.events if ev.get('pair')) // 2))


def c13(tier_):
    rng = random.Random(seed())
    t0 = time.time()
    names = [e['name'] for e in CATALOG]
    bases = rng.sample(range(1, len(CATALOG) + 1), 3 if tier_ == 'quick' else 12)
    wd0 = workdir('c13mc')
    cfg = os.path.join(wd0, 'names.cfg')
    open(cfg, 'w').write('SPECIFICATION Spec\nCONSTANTS\n  Bases = {%s}\n  MaxRun = %d\n  Emit = TRUE\nINVARIANTS DecorationsResolve NegativesDiffer EmitString\nCHECK_DEADLOCK FALSE\n'
                         % (', '.join(map(str, bases)), 2 if tier_ == 'quick' else 3))
    rc, out = mk.tlc('MC_Names.tla', cfg, SPEC, workers=8, timeout=3000, heap='8g')
    if 'No error has been found' not in out:
        raise InfraError('MC_Names failed:\n' + out[-2000:])
    m = re.search(r'(\d+) states generated, (\d+) distinct states found', out)
    nstates = int(m.group(2))
    strings = []
    for line in out.splitlines():
        if line.startswith('<<"NAME", '):
            d = json.loads(json.loads(line[len('<<"NAME", '):-2]))
            strings.append((''.join(chr(c) for c in d['str']), bool(d['expect']), d['kind']))
    shutil.rmtree(wd0, ignore_errors=True)
    # random decorations of every catalogue name: runs of up to 4 separators in any number of gaps, random case
    def decorate(n):
        out_ = ''
        for ch in n:
            if rng.random() < 0.3:
                out_ += ''.join(rng.choice('- ') for _ in range(rng.randint(1, 4)))
            out_ += ch.upper() if rng.random() < 0.4 else ch
        if rng.random() < 0.3:
            out_ += ''.join(rng.choice('- ') for _ in range(rng.randint(1, 4)))
        return out_
    for n in names:
        for _ in range(4 if tier_ == 'quick' else 40):
            strings.append((decorate(n), True, 'random'))
        strings.append((n + rng.choice('_.x1\r\x11'), False, 'random-negative'))
        strings.append((n[:-1], False, 'prefix'))
        k = rng.randrange(len(n))
        strings.append((n[:k] + rng.choice('\r\n\x01\x10\x19\x1f') + n[k:], False, 'control-character'))
        # a NUL inside the std::string (the C++ interface takes the whole string, not its C prefix)
        strings.append((n + '\x00' + rng.choice(['', '_2d', 'x', n]), False, 'embedded-nul'))
    # "however often they occur": separator runs of 64 ... 4100 characters (beyond any fixed-size buffer or length limit) in
    # front of, inside and behind a name; the same with one wrong character (still no catalogue name)
    lrng = random.Random(seed() + 5)
    for n in names:
        for ln in lrng.sample([64, 200, 255, 256, 257, 300, 1000, 4100], 3 if tier_ == 'quick' else 8):
            run = ''.join(lrng.choice('- ') for _ in range(ln))
            k = lrng.choice([0, len(n), lrng.randrange(1, len(n))])
            strings.append((n[:k] + run + n[k:], True, 'long-run'))
        run = ''.join(lrng.choice('- ') for _ in range(lrng.choice([256, 300, 1000])))
        strings.append((n + run + 'x', False, 'long-negative'))
    rng.shuffle(strings)
    execs = []
    chunk = 400
    for i in range(0, len(strings), chunk):
        S = [['init', 'd', 'cxx', 'keep', 'euler_1d']]
        for j, (st, ok, kind) in enumerate(strings[i:i + chunk]):
            p = 'ld' if j % 5 == 4 else 'd'
            S.append(['init', p, 'cxx', 'h', st])
            if ok:
                S.append(['name', p, 'cxx'])
            elif j % 3 == 0:
                S.append(['list', p, 'cxx'])
        S.append(['list', 'd', 'cxx']); S.append(['list', 'ld', 'cxx'])
        execs.append(Execution(S, variant='exc', label='names'))
    # the handle string is used verbatim -- through both interfaces: handles that differ only by case, a dash,
    # a leading/trailing blank are distinct keys; each is initialised, listed and selected again
    for _ in range(4 if tier_ == 'quick' else 20):
        hs = ['run A', 'run A ', ' run A', 'Run A', 'run-A', 'runA', 'run  A']
        rng.shuffle(hs)
        S = []
        for i, h in enumerate(hs):
            S.append(['init', 'd', rng.choice(['cxx', 'c']), h, rng.choice(NONFIX)])
        S.append(['list', 'd', 'cxx'])
        for h in hs:
            S.append(['select', 'd', rng.choice(['cxx', 'c']), h]); S.append(['name', 'd', rng.choice(['cxx', 'c'])])
        S.append(['select', 'd', 'c', 'run a'])      # unknown: fatal, nothing changes
        S.append(['list', 'd', 'c'])
        execs.append(Execution(S, variant='exc', label='verbatim-handles'))
    # a sample of the negatives in the exit() build: the process must end with status 1 and register nothing
    neg = [s for s in strings if not s[1]]
    for st, ok, kind in neg[:60 if tier_ == 'quick' else 600]:
        execs.append(Execution([['init', 'd', 'cxx', 'keep', 'euler_1d'], ['init', 'd', 'cxx', 'h', st]], variant='exit', label='negative-exit'))
    return run_trace_check('C13', tier_, execs, relax=('live', 'memo'), level='model_checking',
        rule='TLC enumerates, for the sampled base names, every insertion of separator runs (length <= 2 quick / 3 thorough, over {-, blank}) into at most two gaps incl. leading/trailing, x 4 case masks, and every single-character insertion/deletion/substitution negative; plus random decorations (runs <= 4 in any number of gaps, random case) and negatives of all catalogue names; each string is passed to masa_init in both precisions and the outcome (success + get_name, or fatal + unchanged list) is validated by Masa!Init / Resolve. distinct = distinct strings',
        assumptions=COMMON_ASSUME, mc=dict(states=nstates, transitions=nstates, exhaustive=True),
        extra_cov=lambda ex: dict(strings=len(strings), decorations=sum(1 for s in strings if s[1]), negatives=sum(1 for s in strings if not s[1])))


def c19(tier_):
    rng = random.Random(seed())
    apij = mk.api_json('exc')['cxx']
    s, t, edges, _ = replay.explore(replay.mc_cfg(('d',), ('h1', 'h2') if tier_ == 'thorough' else ('h1',)), 'exc')
    walks, nu = replay.cover_walks(edges)
    cx = replay.Concrete(rng, apij)
    base = replay.build_executions(edges, walks, cx, 'exc', sweep_every=30, rng=rng)
    base += [gen.gen_registry_random(rng, steps=150) for _ in range(4 if tier_ == 'quick' else 30)]
    base += [gen.gen_init_orders(rng) for _ in range(2 if tier_ == 'quick' else 12)]
    late = [gen.gen_late(random.Random(seed() + 31 * i)) for i in range(2 if tier_ == 'quick' else 10)]
    # vector parameters through both interfaces, failing lookups right after successful ones (a stale length or buffer in
    # the C layer writes beyond the caller's array)
    base += [gen.gen_param_store(rng, sol, 'd', apis=('cxx', 'c'), steps=60) for sol in NONFIX if CAT[sol]['vecs'] for _ in range(2 if tier_ == 'quick' else 8)]
    base += late
    execs, grp = [], 0
    # (a) the driver's own allocator: fresh memory filled with 0x00 / 0xCD / 0xFF, freed memory poisoned; the hook
    #     counter is bound to the specification heap (HeapExact), identical re-inits must not grow the heap
    #     (HeapStable), and the three runs of a history share the memo: results must not depend on the pattern
    for b in base:
        grp += 1
        for fill in (0x00, 0xCD, 0xFF):
            e = Execution(b.script, variant='exc', alloc=True, fill=fill, label=b.label + ':fill%02x' % fill)
            e.group = grp
            execs.append(e)
    # (b) the same histories under AddressSanitizer + UndefinedBehaviorSanitizer + LeakSanitizer
    nsan = len(base) if tier_ == 'thorough' else max(8, len(base) // 3)
    for b in rng.sample(base[:-len(late)], min(nsan, len(base) - len(late))) + base[-len(late) - 2:]:
        execs.append(Execution(b.script, variant='san', label=b.label + ':san'))
    # (c) Valgrind memcheck (thorough tier): uninitialised reads that sanitizers do not see
    vg = []
    if tier_ == 'thorough':
        vg = rng.sample(base, min(12, len(base))) + base[-1:]
    t0 = time.time()
    wd = workdir('C19')
    execs, nsuite = with_suite(execs, tier_)      # thorough: the repository's own programs, hook counter bound to the specification heap
    run_executions(execs, wd)
    extra = crashes(execs)
    for e in execs:
        if e.variant == 'san' and e.err and re.search(r'ERROR: (Address|Leak)Sanitizer|runtime error:', e.err):
            extra.append(('sanitizer report in %s: %s' % (e.label, e.err[:600].replace('\n', ' | ')), e))
    if vg:
        exe = mk.build_driver('exc')
        for i, b in enumerate(vg):
            log = os.path.join(wd, 'vg%d.ndjson' % i)
            open(log + '.script', 'w').write('\n'.join('\t'.join(mk.esc(str(x)) for x in f) for f in b.script) + '\n')
            r = subprocess.run(['valgrind', '--error-exitcode=99', '--leak-check=full', '--errors-for-leak-kinds=definite,indirect', '-q', exe, log + '.script', log],
                               stdout=subprocess.PIPE, stderr=subprocess.PIPE, text=True, timeout=3000)
            if r.returncode != 0:
                extra.append(('valgrind reports errors (rc=%d) in %s: %s' % (r.returncode, b.label, r.stderr[:800].replace('\n', ' | ')), b))
    nlines, rej = validate_executions(execs, wd, relax=(), oracle=False)
    nviol = report('C19', rej, extra)
    cov = dict(evaluations=sum(len(e.events) for e in execs), distinct_nontrivial=distinct_nontrivial(execs),
               rule='histories: every transition of the bounded 1-handle model (2 handles thorough), random multi-handle histories, every solution type initialised in random orders three times in a row and on distinct handles, vector parameters of changing length, C arrays of length 0..8. Each history runs (a) three times under the driver allocator with fill patterns 0x00/0xCD/0xFF and poisoned frees, traces validated with the hook counter bound to the specification heap (HeapExact, HeapStable) and a memo shared across the three runs, (b) under ASan+UBSan+LSan, (c) thorough: under Valgrind memcheck. distinct = distinct (call, arguments) shapes',
               samples=sample_of(execs), states=s, transitions=t, distinct_transitions_replayed=nu, exhaustive=True,
               traces_validated_against_impl=len(execs), trace_lines_accepted=nlines, rejections=len(rej),
               sanitizer_runs=sum(1 for e in execs if e.variant == 'san'), valgrind_runs=len(vg), fill_patterns=[0, 0xCD, 0xFF])
    write_evidence('C19', tier_, 'model_checking', cov, COMMON_ASSUME + ['ASan/UBSan/LSan (clang 14) and Valgrind 3.19 report what they are documented to report'], time.time() - t0, nviol)
    shutil.rmtree(wd, ignore_errors=True)
    return 1 if nviol else 0


def c18(tier_):
    t0 = time.time()
    wd = workdir('C18')
    lib = mk.build_lib('exc')
    abi = os.path.join(wd, 'abi.json')
    rr = mk.sh([sys.executable, os.path.join(VERIF, 'harness', 'abi_extract.py'), mk.REPO, abi, lib])
    if rr.returncode != 0:
        raise InfraError('abi_extract failed: ' + rr.stderr[-2000:])
    tables = json.load(open(abi))
    kn = [k for k in KNOWN if k.get('status') == 'known' and k.get('property') == 'C18']
    kf = os.path.join(wd, 'known.json')
    json.dump([[k['match']['fname'], k['match']['what']] for k in kn], open(kf, 'w'))
    rc, out = mk.tlc('MasaAbi.tla', 'MasaAbi.cfg', SPEC, env={'ABI': abi, 'KNOWN': kf}, workers=1, timeout=600)
    lines = re.findall(r'"ABI ([^"]*)"', out)
    if not any(l.startswith('COUNTS') for l in lines):
        raise InfraError('MasaAbi did not evaluate:\n' + out[-2000:])
    viol = [l for l in lines if l.startswith('VIOLATION')]
    seen = [l for l in lines if l.startswith('KNOWN')]
    for k in kn:
        if any(l.split()[1] == k['match']['fname'] and l.split()[2] == k['match']['what'] for l in seen):
            print('KNOWN-FINDING: property=C18 %s' % k['what'])
        else:
            print('note: known finding %s no longer reproduces on this tree' % k['id'])
    nviol = 0
    os.makedirs(os.path.join(VERIF, 'replays'), exist_ok=True)
    for l in viol:
        path = os.path.join(VERIF, 'replays', 'C18-%03d.json' % nviol)
        json.dump(dict(property='C18', finding=l, tables=tables if nviol == 0 else 'see C18-000.json'), open(path, 'w'), indent=1)
        print('  ' + l)
        print('VIOLATION property=C18 replay=%s' % path)
        nviol += 1
    ok = 'No error has been found' in out
    if not ok and not viol:
        raise InfraError('MasaAbi failed without a reported discrepancy:\n' + out[-2000:])
    nf, nd, nc = len(tables['fortran']), len(tables['cdecls']), len(tables['cdefs'])
    cov = dict(explanation='static relation, decided completely over the extracted tables: %d Fortran bind(C) interfaces (comments and continuations honoured), %d declarations of the extern "C" block of masa.h.in, %d extern "C" definitions of cmasa.cpp, %d exported text symbols of the freshly built library, and the %%module/%%include lines of masa.i. MasaAbi.tla maps every Fortran dummy argument to the C slot the interoperability rules assign (value/by-reference, kind, array, procedure) and TLC evaluates: bound name defined and exported, same number of slots, same slot types, same result; every header declaration defined with identical types and exported; no symbol defined twice; masa.i includes exactly masa.h.' % (nf, nd, nc, len(tables['exported'])),
               evaluations=nf + nd + nc, distinct_nontrivial=nf + nd, exhaustive=True,
               samples=[tables['fortran'][0], tables['cdecls'][0]], fortran_interfaces=nf, header_declarations=nd, c_definitions=nc,
               known_findings=len(seen), discrepancies=len(viol))
    write_evidence('C18', tier_, 'other', cov, ['harness/abi_extract.py reads the three interface texts faithfully (a Fortran interface-block parser and C declaration regexes; both trivial to audit)', 'the slot mapping in MasaAbi.tla states the Fortran 2003 C-interoperability rules; nothing is executed (no Fortran compiler, no SWIG in this sandbox)'], time.time() - t0, nviol)
    shutil.rmtree(wd, ignore_errors=True)
    return 1 if nviol else 0


CHECKS = {'C18': c18, 'C19': c19, 'C13': c13, 'C01': c01, 'C02': c02, 'C03': c03, 'C04': c04, 'C05': c05, 'C06': c06, 'C07': c07, 'C08': c08, 'C09': c09, 'C20': c20, 'C10': c10, 'C11': c11, 'C12': c12, 'C14': c14, 'C15': c15, 'C16': c16, 'C17': c17}


def main():
    pid = sys.argv[1]
    tier_ = tier(sys.argv[2] if len(sys.argv) > 2 else None)
    try:
        rc = CHECKS[pid](tier_)
    except InfraError as e:
        print('ERROR infrastructure: %s' % e)
        sys.exit(2)
    except Exception:
        traceback.print_exc()
        print('ERROR infrastructure: unexpected exception')
        sys.exit(2)
    sys.exit(rc)


if __name__ == '__main__':
    main()
