#!/usr/bin/env python3
"""Specification -> implementation: every transition of a bounded instance of Masa.tla is turned
into calls of the real library.

  1. TLC explores MC_Registry<k> exhaustively and emits one JSON line per transition
     (ACTION_CONSTRAINT EmitEdge): from-state, action with arguments and outcome, to-state.
  2. Walks from the initial state are computed that together cover every transition
     (greedy postman).  A transition into "exited" ends its walk.
  3. Abstract names are concretised (which catalogue entries play "sa"/"sv"/"fx", which parameter
     names, which reals) -- rotated by seed so that over seeds the whole catalogue is visited.
  4. The driver executes each walk; the logs are validated by MasaTrace (concrete catalogue).
"""
import json, os, re, sys, collections, random
from common import *


def explore(cfg, build, emit=True, timeout=1200, workers=8):
    """Run TLC on MC_Registry with the given cfg text; returns (states, transitions, edges)."""
    wd = workdir('mc')
    cfgp = os.path.join(wd, 'mc.cfg')
    open(cfgp, 'w').write(cfg.replace('@BUILD@', build).replace('@EMIT@', 'TRUE' if emit else 'FALSE'))
    extra = ['-coverage', '1'] if not emit else []
    rc, out = mk.tlc('MC_Registry.tla', cfgp, SPEC, workers=workers, timeout=timeout, heap='8g', extra=extra)
    if 'No error has been found' not in out:
        raise InfraError('bounded model run failed:\n' + out[-3000:])
    m = re.search(r'(\d+) states generated, (\d+) distinct states found', out)
    trans, states = int(m.group(1)), int(m.group(2))
    edges = []
    if emit:
        for line in out.splitlines():
            if line.startswith('<<"EDGE", '):
                edges.append(json.loads(json.loads(line[len('<<"EDGE", '):-2])))
    shutil.rmtree(wd, ignore_errors=True)
    if emit:
        assert_not_vacuous(edges)
    return states, trans, edges, out


def explore_sim(cfg, build, num=200, depth=300, timeout=1800):
    """Random behaviours of the instance (TLC -simulate), for instances too large to replay transition by transition:
    returns (edges, walks) -- the transitions in the order TLC took them, cut into walks from the initial state."""
    wd = workdir('mcsim')
    cfgp = os.path.join(wd, 'mc.cfg')
    open(cfgp, 'w').write(cfg.replace('@BUILD@', build).replace('@EMIT@', 'TRUE'))
    rc, out = mk.tlc('MC_Registry.tla', cfgp, SPEC, workers=1, timeout=timeout, heap='4g', extra=['-simulate', 'num=%d' % num, '-depth', str(depth)])
    shutil.rmtree(wd, ignore_errors=True)
    if 'Error:' in out and 'violated' in out:
        raise InfraError('bounded model (simulation) reports a violation:\n' + out[-3000:])
    edges, walks, cur = [], [], None
    for line in out.splitlines():
        if line.startswith('<<"EDGE", '):
            e = json.loads(json.loads(line[len('<<"EDGE", '):-2]))
            f, t = canon(e['from']), canon(e['to'])
            e['_f'], e['_t'] = f, t
            if cur is None or f != cur:           # a new behaviour starts (or TLC backed up): start a new walk if it starts in the initial state
                fresh = e['from']['status'] == 'run' and all(len(v) == 0 for v in e['from']['reg'].values())
                if not fresh:
                    cur = None
                    continue
                walks.append([])
            edges.append(e); walks[-1].append(len(edges) - 1)
            cur = t if e['to']['status'] == 'run' else None
    walks = [w for w in walks if w]
    if not walks:
        raise InfraError('simulation produced no behaviour:\n' + out[-1500:])
    return edges, walks


def action_counts(edges):
    """per action name: number of distinct transitions, split by how the call ended (vacuity evidence)"""
    c = collections.Counter()
    for e in edges:
        a = e['act']
        kind = 'fatal' if 'FATAL' in a.get('o', {}).get('tags', []) else ('complains' if set(a.get('o', {}).get('tags', [])) & {'ERROR', 'SERROR'} else 'ok')
        c['%s:%s' % (a['name'], kind)] += 1
    return dict(sorted(c.items()))


ALL_ACTIONS = ['init', 'select', 'list', 'printid', 'name', 'dim', 'setp', 'getp', 'initp', 'purge', 'sanity', 'setv', 'getv', 'dispp', 'dispv', 'eval', 'testpoly', 'version', 'passfunc', 'testdefault']


def assert_not_vacuous(edges):
    names = set(e['act']['name'] for e in edges) | {'testdefault'}      # testdefault is an option of the instance
    missing = [a for a in ALL_ACTIONS if a not in names]
    if missing:
        raise InfraError('bounded model never takes action(s) %s: the specification or its instance is vacuous' % missing)


def canon(x):
    return json.dumps(x, sort_keys=True)


def cover_walks(edges, max_len=400, sampled=False):
    """Greedy postman: returns (walks, n) -- walks are lists of edge indices that together cover all
    n distinct transitions (from-state, action, outcome)."""
    out_u = collections.defaultdict(list)
    seen = set()
    for i, e in enumerate(edges):
        f, t = canon(e['from']), canon(e['to'])
        e['_f'], e['_t'] = f, t
        k = (f, canon(e['act']))
        if k in seen:
            continue
        seen.add(k)
        out_u[f].append(i)
    n_uniq = len(seen)
    # node graph for path finding: one representative edge per (from, to) pair, running targets only
    succ = collections.defaultdict(dict)
    for f, idxs in out_u.items():
        for i in idxs:
            t = edges[i]['_t']
            if edges[i]['to']['status'] == 'run' and t != f and t not in succ[f]:
                succ[f][t] = i
    # terminal edges last, so a walk keeps going as long as possible
    for f in out_u:
        out_u[f].sort(key=lambda i: edges[i]['to']['status'] == 'exited', reverse=True)   # pop() takes from the end
    remaining = {f: list(v) for f, v in out_u.items()}
    todo = n_uniq
    init = None
    for e in edges:
        if e['from']['status'] == 'run' and all(len(v) == 0 for v in e['from']['reg'].values()):
            init = e['_f']; break
    walks = []
    while todo:
        walk, cur = [], init
        while len(walk) < max_len:
            if remaining.get(cur):
                i = remaining[cur].pop()
                walk.append(i); todo -= 1
                cur = edges[i]['_t']
                if edges[i]['to']['status'] == 'exited':
                    break
                continue
            prev, q, goal = {cur: None}, collections.deque([cur]), None
            while q:
                n = q.popleft()
                if remaining.get(n):
                    goal = n; break
                for t, i in succ[n].items():
                    if t not in prev:
                        prev[t] = (n, i); q.append(t)
            if goal is None:
                break
            path, n = [], goal
            while prev[n] is not None:
                n, i = prev[n]; path.append(i)
            path.reverse()
            if walk and len(walk) + len(path) + 1 > max_len:
                break
            walk += path
            cur = goal
        if not walk:
            if sampled:      # a SAMPLE of the transitions: what cannot be reached through sampled transitions is left out
                break
            raise InfraError('uncovered transitions unreachable from the initial state')
        walks.append(walk)
    return walks, n_uniq - (todo if sampled else 0)


# ------------------------------------------------------------------------------------------------
# concretisation
# ------------------------------------------------------------------------------------------------
HANDLES = {'h1': 'nick', 'h2': 'Nick', 'h3': 'nick ', 'nohandle': 'bob'}


class Concrete:
    def __init__(self, rng, api_cxx):
        allpairs = [(e['fn'], e['sig']) for e in api_cxx]
        sa_cands = [e for e in CATALOG if not e['fixture'] and not e['vecs'] and len(e['pars']) >= 2
                    and any(set(s) == {'S'} for f, s in map(tuple, e['caps']))]
        sv_cands = [e for e in CATALOG if e['vecs']]
        fx_cands = [e for e in CATALOG if e['fixture']]
        self.sa = rng.choice(sa_cands); self.sv = rng.choice(sv_cands)
        # the two self-test fixtures: fx = the one with the failing init_var (parameters q, r), fu = the empty one
        self.fx = [e for e in fx_cands if e['initp']['breaks']][0]; self.fu = [e for e in fx_cands if not e['initp']['breaks']][0]
        a, b = rng.sample(self.sa['pars'], 2)
        self.par = {'a': a, 'b': b, 'c': rng.choice(self.sv['pars']), 'zz': 'no_such_parameter', 'q': self.fx['initp']['one'][0]}
        self.vec = {'w': rng.choice(self.sv['vecs']), 'zz': 'no_such_vector'}
        sacaps = [tuple(c) for c in self.sa['caps']]; svcaps = [tuple(c) for c in self.sv['caps']]
        fa = [c for c in sacaps if set(c[1]) == {'S'} and c not in svcaps]
        fv = [c for c in svcaps if c not in sacaps and set(c[1]) <= {'S'} and c[1] != '' and self.sv['name'] != 'cp_normal'
              or (self.sv['name'] == 'cp_normal' and c in (('prior', 'S'),))]
        anycaps = set(tuple(c) for e in CATALOG for c in e['caps'] + e['fcaps'])
        fn = [c for c in allpairs if c not in anycaps and set(c[1]) <= {'S'} and c[1]]
        self.ev = {'fA': rng.choice(fa), 'fV': rng.choice(fv), 'fN': rng.choice(fn)}
        self.vals = {'v1': rng.choice([0.75, 1.5, 2.25, 3.125]), 'v2': rng.choice([0.625, 1.875, 2.5, 4.75]), 'mk': -12345.67}
        self.pt = [rng.choice([0.375, 0.5, 0.625]), rng.choice([0.25, 0.4375]), rng.choice([0.3125, 0.6875]), rng.choice([0.125, 0.5625])]

    def solname(self, codes):
        s = ''.join(chr(c) for c in codes)
        if s == 'sa':
            return self.sa['name']
        if s == 'S- a':      # the decorated spelling: first letter upper-cased, "- " inserted after it
            n = self.sa['name']
            return n[0].upper() + '- ' + n[1:]
        if s == 'sv':
            return self.sv['name']
        if s == 'fx':
            return self.fx['name']
        if s == 'fu':
            return self.fu['name']
        return 'no_such_solution'

    def describe(self):
        return dict(sa=self.sa['name'], sv=self.sv['name'], fx=self.fx['name'], par=self.par, vec=self.vec,
                    ev={k: list(v) for k, v in self.ev.items()}, vals=self.vals)

    def call(self, act, api='cxx'):
        n, p, a = act['name'], act['p'], act.get('args', [])
        if n == 'init':
            return ['init', p, api, HANDLES[a[0]], self.solname(a[1])]
        if n == 'select':
            return ['select', p, api, HANDLES[a[0]]]
        if n in ('list', 'name', 'dim', 'initp', 'purge', 'sanity', 'dispp', 'dispv'):
            return [n, p, api]
        if n == 'printid':
            return ['printid', p]
        if n == 'setp':
            return ['setp', p, api, self.par[a[0]], hexf(self.vals[a[1]])]
        if n == 'getp':
            return ['getp', p, api, self.par[a[0]]]
        if n == 'setv':
            return ['setv', p, api, self.vec[a[0]], len(a[1])] + [hexf(self.vals[v]) for v in a[1]]
        if n == 'getv':
            return ['getv', p, api, self.vec[a[0]]]
        if n == 'testpoly':
            return ['testpoly', p, 'cxx']
        if n == 'version':
            return ['version', p, 'cxx']
        if n == 'passfunc':
            return ['passfunc', p, 'cxx', hexf(self.pt[0] + 1.0), 'poly', hexf(1.0), hexf(2.0), hexf(0.5)]
        if n == 'testdefault':
            return ['testdefault', p, api if api == 'c' and p == 'd' else 'cxx', hexf(self.vals[a[0]])]
        if n == 'eval':
            fn, sig = self.ev[a[0]]
            return ['eval', p, api, fn, sig] + [hexf(self.pt[i]) for i in range(len(sig))]
        raise InfraError('no concretisation for action ' + n)


def sweep_lines(cx, state, precs):
    """Observation sweep: read back everything of every registered handle, then restore the selection."""
    L = []
    for p in precs:
        L.append(['list', p, 'cxx'])
        reg = state['reg'].get(p) or {}
        cur = state['sel'][p]
        hs = sorted(reg.keys()) if isinstance(reg, dict) else []
        for h in hs:
            if len(hs) > 1 or cur != h:
                L.append(['select', p, 'cxx', HANDLES[h]])
            sol = reg[h]['sol']
            L.append(['name', p, 'cxx']); L.append(['dim', p, 'cxx'])
            ent = {'sa': cx.sa, 'sv': cx.sv, 'fx': cx.fx, 'fu': cx.fu}[sol]
            for k in ent['pars']:
                L.append(['getp', p, 'cxx', k])
            for k in ent['vecs']:
                L.append(['getv', p, 'cxx', k])
        if cur != '$none' and hs and (len(hs) > 1):
            L.append(['select', p, 'cxx', HANDLES[cur]])
    return L


def build_executions(edges, walks, cx, variant, sweep_every=0, rng=None, alloc=False, fill=None, apis=('cxx',), sweep_after_fatal=0.0):
    execs = []
    for w in walks:
        script = []
        for step, i in enumerate(w):
            e = edges[i]
            api = rng.choice(apis) if (rng and e['act']['p'] == 'd') else 'cxx'
            if e['act']['name'] == 'printid':
                api = 'cxx'
            if e['act']['name'] == 'eval' and api == 'c':
                import gen
                if tuple(cx.ev[e['act']['args'][0]]) not in gen.c_overloads():
                    api = 'cxx'
            script.append(cx.call(e['act'], api))
            fatal = 'FATAL' in e['act'].get('o', {}).get('tags', [])
            if fatal and sweep_after_fatal and e['to']['status'] == 'run' and rng.random() < sweep_after_fatal:
                script += sweep_lines(cx, e['to'], sorted(e['to']['sel'].keys()))
            elif sweep_every and e['to']['status'] == 'run' and rng.random() < 1.0 / sweep_every:
                script += sweep_lines(cx, e['to'], sorted(e['to']['sel'].keys()))
        last = edges[w[-1]]
        if last['to']['status'] == 'run':
            script += sweep_lines(cx, last['to'], sorted(last['to']['sel'].keys()))
        execs.append(Execution(script, variant=variant, alloc=alloc, fill=fill, label='walk'))
    return execs


MC_CFG = '''SPECIFICATION Spec
CONSTANTS
  MCPrec = %(prec)s
  Handles = %(handles)s
  MCBuild = "@BUILD@"
  EmitEdges = @EMIT@
  TestDefaultOn = %(td)s
  Lite = %(lite)s
  EmitOneIn = %(onein)d
VIEW View
INVARIANTS TypeOK SelValid HeapExact RegSound
PROPERTIES Isolation PrecIndependent SelSticky SelMoves EvalPure FatalIntact FatalOnlyIfMisuse NoUseBeforeInit ReinitFresh SetThenGet
ACTION_CONSTRAINT EmitEdge
CHECK_DEADLOCK FALSE
'''


def mc_cfg(prec=('d',), handles=('h1', 'h2'), testdefault=False, lite=False, onein=1):
    return MC_CFG % dict(td='TRUE' if testdefault else 'FALSE', lite='TRUE' if lite else 'FALSE', onein=onein, prec='{' + ', '.join('"%s"' % p for p in prec) + '}',
                         handles='{' + ', '.join('"%s"' % h for h in handles) + '}')
