// suite_rt.h -- runtime of the tracing shim (see gen_suite_shim.py).  Included after driver.cpp (DRIVER_NO_MAIN),
// whose logging helpers it reuses, so that the events have exactly the driver's format.
#include <functional>

static int g_depth = 0;        // > 0: inside a public call (the C wrappers call the C++ templates)
static int g_out = -1;         // the test program's real stdout
static bool g_ready = false;

static void suite_begin()
{
  if (g_ready) return;
  g_ready = true;
  const char* path = getenv("MASA_TRACE_LOG");
  g_log = open(path ? path : "masa_suite_trace.ndjson", O_WRONLY | O_CREAT | O_TRUNC, 0644);
  g_cap = memfd_create("masa-stdout", 0);
  on_exit(on_exit_handler, 0);
}
struct SuiteScope {
  bool top;
  SuiteScope() : top(g_depth == 0) {
    ++g_depth;
    if (top) { suite_begin(); fflush(stdout); std::cout.flush(); g_out = dup(1); dup2(g_cap, 1); }
  }
  ~SuiteScope() { --g_depth; if (top) { fflush(stdout); std::cout.flush(); dup2(g_out, 1); close(g_out); } }
};
// on_exit/finish run while fd 1 is the capture: restore it for whatever the program prints afterwards
static void suite_restore() { if (g_out >= 0) { fflush(stdout); std::cout.flush(); dup2(g_out, 1); } }

template <typename Scalar>
static void suite_open(const std::vector<std::string>& f)
{
  ++g_seq;
  bool ld = f[1] == "ld";
  std::string e = "{\"i\":" + std::to_string(g_seq) + ",\"op\":" + jstr(f[0]) + ",\"p\":" + jstr(f[1]) + ",\"api\":" + jstr(f[2]);
  e += ",\"f\":[";
  for (size_t i = 3; i < f.size(); ++i) e += (i > 3 ? "," : "") + jstr(f[i]);
  e += "]";
  e += pre_fields<Scalar>(f);
  (void)ld;
  g_pending = e; g_in_call = true;
}
// run the real call; a thrown int (exception build) is logged and re-thrown to the test program
template <typename R, typename F> static R suite_run(F real, bool& threw)
{
  threw = false;
  try { return real(); }
  catch (int code) { finish("", "throw" + std::to_string(code)); suite_restore(); threw = true; throw; }
}
template <typename F> static void suite_run_void(F real)
{
  try { real(); }
  catch (int code) { finish("", "throw" + std::to_string(code)); suite_restore(); throw; }
}
#define SUITE_TOP(scope) if (!scope.top) return real();

template <typename Scalar, typename F>
static int suite_int_op(const char* op, const char* p, const char* api, std::vector<std::string> extra_fields, F real, int parse = 0)
{
  SuiteScope sc; SUITE_TOP(sc)
  std::vector<std::string> f{op, p, api}; f.insert(f.end(), extra_fields.begin(), extra_fields.end());
  suite_open<Scalar>(f);
  bool threw; int r = suite_run<int>(real, threw);
  std::string out = captured();
  std::string extra = "\"ret\":" + std::to_string(r);
  if (parse == 1) extra += "," + parse_list(out);
  if (parse == 2) extra += "," + parse_printid(out);
  if (parse == 3) extra += "," + parse_disp(out, " is set to: ", "v");
  if (parse == 4) extra += "," + parse_disp(out, " is size: ", "n");
  if (parse == 5) extra += "," + parse_warn(out);
  finish(extra, "ret", &out);
  return r;
}
template <typename Scalar, typename F> static int suite_init(const char* p, const char* api, std::string h, std::string n, F real) { return suite_int_op<Scalar>("init", p, api, {h, n}, real); }
template <typename Scalar, typename F> static int suite_init(const char* p, const char* api, const char* h, const char* n, F real) { return suite_int_op<Scalar>("init", p, api, {h, n}, real); }
template <typename Scalar, typename F> static int suite_select(const char* p, const char* api, std::string h, F real) { return suite_int_op<Scalar>("select", p, api, {h}, real); }
template <typename Scalar, typename F> static int suite_select(const char* p, const char* api, const char* h, F real) { return suite_int_op<Scalar>("select", p, api, {h}, real); }
template <typename Scalar, typename F> static int suite_list(const char* p, const char* api, F real) { return suite_int_op<Scalar>("list", p, api, {}, real, 1); }
template <typename Scalar, typename F> static int suite_printid(const char* p, const char* api, F real) { return suite_int_op<Scalar>("printid", p, api, {}, real, 2); }
template <typename Scalar, typename F> static int suite_initp(const char* p, const char* api, F real) { return suite_int_op<Scalar>("initp", p, api, {}, real); }
template <typename Scalar, typename F> static int suite_purge(const char* p, const char* api, F real) { return suite_int_op<Scalar>("purge", p, api, {}, real); }
template <typename Scalar, typename F> static int suite_sanity(const char* p, const char* api, F real) { return suite_int_op<Scalar>("sanity", p, api, {}, real, 5); }
template <typename Scalar, typename F> static int suite_dispp(const char* p, const char* api, F real) { return suite_int_op<Scalar>("dispp", p, api, {}, real, 3); }
template <typename Scalar, typename F> static int suite_dispv(const char* p, const char* api, F real) { return suite_int_op<Scalar>("dispv", p, api, {}, real, 4); }
template <typename Scalar, typename F> static int suite_testpoly(const char* p, const char* api, F real) { return suite_int_op<Scalar>("testpoly", p, api, {}, real); }

template <typename Scalar, typename K, typename F>
static void suite_setp(const char* p, const char* api, K key, Scalar v, F real)
{
  SuiteScope sc; if (!sc.top) { real(); return; }
  suite_open<Scalar>({"setp", p, api, std::string(key), hexs<Scalar>(v)});
  suite_run_void(real);
  finish("", "ret");
}
template <typename Scalar, typename K, typename F>
static Scalar suite_getp(const char* p, const char* api, K key, F real)
{
  SuiteScope sc; SUITE_TOP(sc)
  suite_open<Scalar>({"getp", p, api, std::string(key)});
  bool threw; Scalar r = suite_run<Scalar>(real, threw);
  finish("\"ret\":" + jstr(hexs<Scalar>(r)) + ",\"dec\":" + jstr(decs<Scalar>(r)), "ret");
  return r;
}
template <typename Scalar, typename F>
static int suite_name(const char* p, const char* api, std::string* s, F real)
{
  SuiteScope sc; SUITE_TOP(sc)
  suite_open<Scalar>({"name", p, api});
  bool threw; int r = suite_run<int>(real, threw);
  finish("\"ret\":" + std::to_string(r) + ",\"v\":" + jstr(*s), "ret");
  return r;
}
template <typename Scalar, typename F>
static int suite_name_c(const char* p, const char* api, char* buf, F real)
{
  SuiteScope sc; SUITE_TOP(sc)
  suite_open<Scalar>({"name", p, api});
  bool threw; int r = suite_run<int>(real, threw);
  finish("\"ret\":" + std::to_string(r) + ",\"v\":" + jstr(buf), "ret");
  return r;
}
template <typename Scalar, typename F>
static int suite_dim(const char* p, const char* api, int* d, F real)
{
  SuiteScope sc; SUITE_TOP(sc)
  suite_open<Scalar>({"dim", p, api});
  bool threw; int r = suite_run<int>(real, threw);
  finish("\"ret\":" + std::to_string(r) + ",\"v\":" + std::to_string(*d), "ret");
  return r;
}
template <typename Scalar, typename F>
static void suite_setv_vec(const char* p, const char* api, std::string k, std::vector<Scalar>& v, F real)
{
  SuiteScope sc; if (!sc.top) { real(); return; }
  std::vector<std::string> f{"setv", p, api, k, std::to_string(v.size())};
  for (size_t i = 0; i < v.size(); ++i) f.push_back(hexs<Scalar>(v[i]));
  suite_open<Scalar>(f);
  suite_run_void(real);
  finish("", "ret");
}
template <typename Scalar, typename F>
static void suite_setv_arr(const char* p, const char* api, const char* k, int* n, double* a, F real)
{
  SuiteScope sc; if (!sc.top) { real(); return; }
  std::vector<std::string> f{"setv", p, api, k, std::to_string(*n)};
  for (int i = 0; i < *n; ++i) f.push_back(hexd(a[i]));
  suite_open<Scalar>(f);
  suite_run_void(real);
  finish("", "ret");
}
template <typename Scalar, typename F>
static int suite_getv_vec(const char* p, const char* api, std::string k, std::vector<Scalar>& v, F real)
{
  SuiteScope sc; SUITE_TOP(sc)
  suite_open<Scalar>({"getv", p, api, k});
  size_t before = v.size();
  bool threw; int r = suite_run<int>(real, threw);
  std::string vj = "[";
  for (size_t i = 0; i < v.size(); ++i) vj += (i ? "," : "") + jstr(hexs<Scalar>(v[i]));
  // on a failed lookup the specification expects the caller's vector untouched; the driver pre-fills 3 elements,
  // a test program has whatever it has: report 3 when it is untouched so that the same action applies
  size_t n = (r != 0 && v.size() == before) ? 3 : v.size();
  finish("\"ret\":" + std::to_string(r) + ",\"n\":" + std::to_string(n) + ",\"v\":" + vj + "]", "ret");
  return r;
}
template <typename Scalar, typename F>
static int suite_getv_arr(const char* p, const char* api, const char* k, int* n, double* a, F real)
{
  SuiteScope sc; SUITE_TOP(sc)
  suite_open<Scalar>({"getv", p, api, k});
  bool threw; int r = suite_run<int>(real, threw);
  std::string vj = "[";
  for (int i = 0; i < *n; ++i) vj += (i ? "," : "") + jstr(hexd(a[i]));
  finish("\"ret\":" + std::to_string(r) + ",\"n\":" + std::to_string(*n) + ",\"v\":" + vj + "]", "ret");
  return r;
}
// Evaluations do not change the state, and the suite makes millions of them: they are thinned logarithmically
// (all of the first 100, then a pseudo-random 1 in 10 up to 1000, 1 in 100 up to 10^4, ...); every other call is logged.
static unsigned long g_evals = 0;
static bool keep_eval()
{
  unsigned long n = ++g_evals, stride = 1;
  for (unsigned long lim = 100; n > lim && stride < 1000000; lim *= 10) stride *= 10;
  unsigned long h = n * 0x9E3779B97F4A7C15ul; h ^= h >> 29; h *= 0xBF58476D1CE4E5B9ul; h ^= h >> 32;
  return h % stride == 0;
}
template <typename Scalar, typename F>
static Scalar suite_eval(const char* p, const char* api, const char* fn, const char* sig, const std::vector<long double>& sa, int di, F real)
{
  if (g_depth == 0 && !keep_eval()) { ++g_depth; try { Scalar r = real(); --g_depth; return r; } catch (...) { --g_depth; throw; } }
  SuiteScope sc; SUITE_TOP(sc)
  std::vector<std::string> f{"eval", p, api, fn, sig};
  size_t k = 0;
  for (const char* c = sig; *c; ++c) {
    if (*c == 'S') f.push_back(hexs<Scalar>(Scalar(sa[k++])));
    else if (*c == 'I') f.push_back(std::to_string(di));
    else if (*c == 'F') { f.push_back("opaque"); f.push_back("0"); f.push_back("0"); f.push_back("0"); }   // the test's own function
  }
  suite_open<Scalar>(f);
  bool threw; Scalar r = suite_run<Scalar>(real, threw);
  std::string extra = "\"ret\":" + jstr(hexs<Scalar>(r)) + ",\"dec\":" + jstr(decs<Scalar>(r));
  extra += std::string(",\"fin\":") + (std::isfinite(r) ? "true" : "false");
  finish(extra, "ret");
  return r;
}
