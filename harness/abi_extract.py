#!/usr/bin/env python3
"""abi_extract.py <repo> <out.json> [<libdir>]

Extracts, from the tree under test, the tables MasaAbi.tla decides C18 on:
  fortran : every bind(C) interface of src/masa.f90 (comments and continuations honoured): Fortran name,
            the bound C name, subroutine/function, result kind, and per dummy argument its declared kind
            (real / integer / character / procedure / funptr / unknown), the `value` attribute, array-ness
  cdefs   : every extern "C" function DEFINED in src/cmasa.cpp: name, result type, argument types (normalised)
  cdecls  : every function DECLARED in the extern "C" block of src/masa.h.in
  swig    : %module, the %include list and every other %directive of src/masa.i
  cview, swigview : the functions the header declares to a C caller and to SWIG (conditionals evaluated by gcc -E
            with no macro / with SWIG and SWIGPYTHON defined, #include not followed, __cplusplus undefined)
  exported: global text symbols of the freshly built library (nm), when a library directory is given
The extractor only reads; every judgement (slot mapping, equality of conventions) is made by the specification.
"""
import json, os, re, subprocess, sys


def strip_c_comments(s):
    s = re.sub(r'/\*.*?\*/', ' ', s, flags=re.S)
    return re.sub(r'//[^\n]*', ' ', s)


def norm_ctype(t):
    t = t.strip()
    if '(*' in t:
        return 'fnptr'
    arr = '[' in t
    t = re.sub(r'\[[^\]]*\]', '', t)
    t = re.sub(r'\bconst\b', '', t)
    ptr = t.count('*') + (1 if arr else 0)
    base = t.replace('*', ' ').split()
    # drop the parameter name when there is one
    known = ('double', 'int', 'char', 'void', 'float', 'long', 'unsigned', 'short')
    words = [w for w in base if w in known]
    b = ' '.join(words) if words else ' '.join(base)
    return b + '*' * ptr


def split_args(a):
    a = a.strip()
    if a in ('', 'void'):
        return []
    parts, depth, cur = [], 0, ''
    for ch in a:
        if ch == '(':
            depth += 1
        if ch == ')':
            depth -= 1
        if ch == ',' and depth == 0:
            parts.append(cur); cur = ''
        else:
            cur += ch
    parts.append(cur)
    return [norm_ctype(p) for p in parts]


def c_defs(repo):
    s = strip_c_comments(open(repo + '/src/cmasa.cpp').read())
    out = []
    for m in re.finditer(r'extern\s+"C"\s+([\w\s\*]+?)\s*\b(\w+)\s*\(([^{;]*?)\)\s*\{', s):
        out.append(dict(name=m.group(2), ret=norm_ctype(m.group(1)), args=split_args(m.group(3))))
    return out


def c_decls(repo):
    s = strip_c_comments(open(repo + '/src/masa.h.in').read())
    i = s.rfind('extern "C" {')
    blk = s[i:]
    out = []
    for m in re.finditer(r'\bextern\s+([\w\s\*]+?)\s*\b(\w+)\s*\(([^;{]*?)\)\s*;', blk):
        out.append(dict(name=m.group(2), ret=norm_ctype(m.group(1)), args=split_args(m.group(3))))
    return out


def header_view(repo, defines):
    """the functions a translation unit sees when it includes the public header with the given macros defined and
    __cplusplus undefined: the C caller's view (no macros) and SWIG's view (SWIG's preprocessor defines SWIG and
    SWIGPYTHON, evaluates conditionals and does not follow #include).  The conditionals are evaluated by the C
    preprocessor (gcc -E), the declarations are read from its output."""
    src = open(repo + '/src/masa.h.in').read()
    src = re.sub(r'^[ \t]*#[ \t]*include[^\n]*$', '', src, flags=re.M)
    r = subprocess.run(['gcc', '-E', '-P', '-x', 'c', '-undef'] + ['-D' + d for d in defines] + ['-'], input=src, stdout=subprocess.PIPE, stderr=subprocess.DEVNULL, text=True)
    if r.returncode != 0:
        return None
    out = []
    for m in re.finditer(r'\bextern\s+([\w\s\*]+?)\s*\b(\w+)\s*\(([^;{]*?)\)\s*;', r.stdout):
        out.append(dict(name=m.group(2), ret=norm_ctype(m.group(1)), args=split_args(m.group(3))))
    return out


def fortran_lines(path):
    """logical lines: `!` comments removed (outside strings), `&` continuations joined"""
    out, cur = [], ''
    for raw in open(path):
        line, q = '', None
        for ch in raw.rstrip('\n'):
            if q:
                line += ch
                if ch == q:
                    q = None
            elif ch in '\'"':
                q = ch; line += ch
            elif ch == '!':
                break
            else:
                line += ch
        line = line.strip()
        if not line:
            continue
        if line.startswith('&'):
            line = line[1:].strip()
        if line.endswith('&'):
            cur += line[:-1] + ' '
            continue
        out.append(cur + line); cur = ''
    return out


def fortran_binds(repo):
    L = fortran_lines(repo + '/src/masa.f90')
    out, i = [], 0
    hdr = re.compile(r'^(?:(real|integer)\s*\(\s*(\w+)\s*\)\s+)?(subroutine|function)\s+(\w+)\s*\(([^)]*)\)\s*bind\s*\(\s*C\s*,\s*name\s*=\s*[\'"](\w+)[\'"]\s*\)', re.I)
    while i < len(L):
        m = hdr.match(L[i])
        if not m:
            i += 1; continue
        rkind, rk2, what, fname, args, cname = m.groups()
        dummies = [a.strip() for a in args.split(',') if a.strip()]
        decl = {d.lower(): dict(name=d, kind='unknown', value=False, array=False) for d in dummies}
        result = (rkind or '').lower()
        i += 1
        depth = 0
        while i < len(L) and not re.match(r'^end\s+(subroutine|function)\s+' + re.escape(fname) + r'\b', L[i], re.I):
            ln = L[i]
            if re.match(r'^(abstract\s+)?interface\b', ln, re.I):
                depth += 1
                # a dummy procedure: its name is the function/subroutine declared inside
                j = i + 1
                while j < len(L) and not re.match(r'^end\s+interface', L[j], re.I):
                    mm = re.match(r'^(?:[\w\s\(\)]*?)\b(function|subroutine)\s+(\w+)', L[j], re.I)
                    if mm and mm.group(2).lower() in decl:
                        decl[mm.group(2).lower()]['kind'] = 'procedure'
                    j += 1
                i = j + 1
                continue
            mm = re.match(r'^(real|integer|character|type|procedure)\s*(\([^)]*\))?\s*((?:,\s*[\w\(\)\*:=\s]+?)*)\s*::\s*(.*)$', ln, re.I)
            if mm:
                base, par, attrs, names = mm.group(1).lower(), (mm.group(2) or '').lower(), (mm.group(3) or '').lower(), mm.group(4)
                kind = base
                if base == 'type' and 'c_funptr' in par:
                    kind = 'funptr'
                for nm in re.split(r',(?![^()]*\))', names):
                    nm = nm.strip()
                    arr = '(' in nm or 'dimension' in attrs
                    key = re.sub(r'\(.*', '', nm).strip().lower()
                    if key in decl:
                        decl[key].update(kind=kind, value=bool(re.search(r'\bvalue\b', attrs)), array=arr)
                    elif key == fname.lower():
                        result = kind
            i += 1
        out.append(dict(fname=fname, cname=cname, sub=(what.lower() == 'subroutine'), result=result or ('none' if what.lower() == 'subroutine' else 'unknown'),
                        args=[decl[d.lower()] for d in dummies]))
        i += 1
    return out


def swig(repo):
    s = open(repo + '/src/masa.i').read()
    s = re.sub(r'//[^\n]*', '', s)
    s = re.sub(r'%\{.*?%\}', '', s, flags=re.S)
    return dict(directives=sorted(set(re.findall(r'%(\w+)', s)) - {'module', 'include'}), module=re.findall(r'%module\s+(\w+)', s), includes=re.findall(r'%include\s+"([^"]+)"', s) + re.findall(r'%include\s+<([^>]+)>', s),
                imports=re.findall(r'%import\s+"([^"]+)"', s))


def exported(libdir):
    r = subprocess.run(['nm', '--defined-only', '-g', os.path.join(libdir, 'libmasa.a')], stdout=subprocess.PIPE, stderr=subprocess.DEVNULL, text=True)
    return sorted(set(l.split()[-1] for l in r.stdout.splitlines() if len(l.split()) == 3 and l.split()[1] in 'TW'))


def main():
    repo, out = sys.argv[1], sys.argv[2]
    d = dict(fortran=fortran_binds(repo), cdefs=c_defs(repo), cdecls=c_decls(repo), swig=swig(repo),
             cview=header_view(repo, []), swigview=header_view(repo, ['SWIG', 'SWIGPYTHON']),
             exported=exported(sys.argv[3]) if len(sys.argv) > 3 else [])
    json.dump(d, open(out, 'w'), indent=1)
    print('fortran bind(C): %d, C definitions: %d, header declarations: %d, exported: %d' % (len(d['fortran']), len(d['cdefs']), len(d['cdecls']), len(d['exported'])))


if __name__ == '__main__':
    main()
