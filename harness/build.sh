#!/bin/bash
# build.sh <variant> [repo]  ->  prints the directory holding libmasa.a + include/ for that variant
#
# Compiles /repo's *current working tree* (src/*.cpp, masa.h regenerated from masa.h.in) itself,
# never using /repo's own build products.  Result is cached outside /repo and /verif in a
# directory keyed by the content hash of every input; an absent cache simply means a rebuild.
#
# variants:  exit   as configured (-O0) + -DMASA_VERIF                 (masa_exit -> exit(1))
#            exc    exit + -DMASA_EXCEPTIONS                           (masa_exit -> throw 1)
#            san    clang++ -fsanitize=address,undefined + exceptions  (C19)
#            plain  no -DMASA_VERIF                                    (guard-off sanity)
set -euo pipefail
variant=${1:?variant}
repo=${2:-${VERIF_REPO:-/repo}}
here=$(cd "$(dirname "$0")" && pwd)
cache_root=${VERIF_CACHE:-${TMPDIR:-/tmp}/masa-verif-cache}
mkdir -p "$cache_root"

srcs=$(cd "$repo/src" && ls *.cpp | grep -v '^version\.cpp$' | sort)
hash=$( (cd "$repo/src" && cat $srcs *.h *.hpp masa.h.in 2>/dev/null; echo "$variant"; cat "$here/build.sh") | sha256sum | cut -c1-20)
out="$cache_root/lib-$variant-$hash"
if [ -f "$out/ok" ]; then echo "$out"; exit 0; fi

# serialise concurrent builders of the same variant
exec 9>"$cache_root/lock-$variant-$hash"
flock 9
if [ -f "$out/ok" ]; then echo "$out"; exit 0; fi
rm -rf "$out"; mkdir -p "$out/include" "$out/obj"

# masa.h from masa.h.in with the substitutions configure would make (values are informational)
sed -e 's/@GENERIC_MAJOR_VERSION@/0/' -e 's/@GENERIC_MINOR_VERSION@/51/' -e 's/@GENERIC_MICRO_VERSION@/1/' \
    -e 's/@BUILD_USER@//' -e 's/@BUILD_ARCH@/x86_64-pc-linux-gnu/' -e 's/@BUILD_HOST@/verif/' \
    -e 's/@BUILD_DATE@/verif/' -e 's/@BUILD_VERSION@/worktree/' -e 's/@VERSION@/0.51.1/' \
    -e 's/@BUILD_DEVSTATUS@/Development Build/' -e 's/@CXX@/g++/' -e 's/@CXXFLAGS@/-O0/' \
    -e 's/@FC@//' -e 's/@FCFLAGS@//' "$repo/src/masa.h.in" > "$out/include/masa.h"
cat > "$out/include/config.h" <<'EOF'
/* config.h written by /verif/harness/build.sh */
#define PACKAGE "masa"
#define VERSION "0.51.1"
EOF
[ "$variant" = exc ] || [ "$variant" = san ] && echo '#define MASA_EXCEPTIONS 1' >> "$out/include/config.h"

case "$variant" in
  exit|exc) CXX=g++;     FLAGS="-O0 -g0 -DMASA_VERIF" ;;
  san)      CXX=clang++; FLAGS="-O0 -g -fno-omit-frame-pointer -fsanitize=address,undefined -fno-sanitize-recover=undefined -DMASA_VERIF" ;;
  plain)    CXX=g++;     FLAGS="-O0 -g0" ;;
  *) echo "unknown variant $variant" >&2; exit 2 ;;
esac
echo "$CXX" > "$out/cxx"; echo "$FLAGS" > "$out/flags"

fail=0
pids=()
for f in $srcs; do
  ( $CXX $FLAGS -DHAVE_CONFIG_H -I"$out/include" -I"$repo/src" -c "$repo/src/$f" -o "$out/obj/${f%.cpp}.o" 2> "$out/obj/${f%.cpp}.err" ) &
  pids+=($!)
done
for p in "${pids[@]}"; do wait "$p" || fail=1; done
if [ $fail -ne 0 ]; then cat "$out"/obj/*.err >&2; echo "build failed" >&2; rm -rf "$out"; exit 2; fi
ar rcs "$out/libmasa.a" "$out"/obj/*.o
rm -rf "$out/obj"
touch "$out/ok"
# keep the cache bounded: drop all but the 8 most recent library builds
ls -dt "$cache_root"/lib-* 2>/dev/null | tail -n +9 | xargs -r rm -rf
echo "$out"
