#!/usr/bin/env python3
"""Build helpers shared by all checks: library variants, the driver, TLC invocation."""
import hashlib, json, os, re, shutil, subprocess, sys, time

HERE = os.path.dirname(os.path.abspath(__file__))
VERIF = os.path.dirname(HERE)
REPO = os.environ.get('VERIF_REPO', '/repo')
CACHE = os.environ.get('VERIF_CACHE', os.path.join(os.environ.get('TMPDIR', '/tmp'), 'masa-verif-cache'))
TLA_JAR = '/opt/veriftools/tla/tla2tools.jar'
TLA_DEPS = '/opt/veriftools/tla/CommunityModules-deps.jar'


class InfraError(Exception):
    pass


def sh(cmd, **kw):
    return subprocess.run(cmd, stdout=subprocess.PIPE, stderr=subprocess.PIPE, text=True, **kw)


def build_lib(variant):
    r = sh([os.path.join(HERE, 'build.sh'), variant, REPO])
    if r.returncode != 0:
        raise InfraError('library build (%s) failed:\n%s' % (variant, r.stderr[-4000:]))
    return r.stdout.strip().splitlines()[-1]


def _hash(*paths, extra=''):
    h = hashlib.sha256()
    for p in paths:
        h.update(open(p, 'rb').read())
    h.update(extra.encode())
    return h.hexdigest()[:16]


def build_driver(variant, alloc=False):
    """variant: exit | exc | san.  alloc: replace operator new/delete (accounting + fill)."""
    lib = build_lib(variant)
    cxx = open(os.path.join(lib, 'cxx')).read().strip()
    flags = open(os.path.join(lib, 'flags')).read().split()
    src = os.path.join(HERE, 'driver.cpp')
    gen = os.path.join(HERE, 'gen_dispatch.py')
    key = _hash(src, gen, os.path.join(REPO, 'src/masa.h.in'), os.path.join(REPO, 'src/cmasa.cpp'),
                extra=lib + str(alloc))
    out = os.path.join(CACHE, 'drv-%s-%s-%s' % (variant, 'alloc' if alloc else 'std', key))
    exe = os.path.join(out, 'driver')
    if os.path.exists(exe):
        return exe
    tmp = out + '.tmp%d' % os.getpid()
    shutil.rmtree(tmp, ignore_errors=True)
    os.makedirs(tmp)
    r = sh([sys.executable, gen, REPO, os.path.join(tmp, 'dispatch_gen.h'), os.path.join(tmp, 'api.json')])
    if r.returncode != 0:
        raise InfraError('gen_dispatch failed: ' + r.stderr)
    cmd = [cxx] + flags + ['-I' + tmp, '-I' + os.path.join(lib, 'include'), src, os.path.join(lib, 'libmasa.a'),
                           '-o', os.path.join(tmp, 'driver')]
    if alloc:
        cmd.insert(1, '-DDRV_ALLOC')
    r = sh(cmd)
    if r.returncode != 0:
        raise InfraError('driver build failed:\n' + r.stderr[-4000:])
    try:
        os.rename(tmp, out)
    except OSError:
        shutil.rmtree(tmp, ignore_errors=True)
    # bound the cache
    ds = sorted([os.path.join(CACHE, d) for d in os.listdir(CACHE) if d.startswith('drv-')], key=os.path.getmtime)
    for d in ds[:-12]:
        shutil.rmtree(d, ignore_errors=True)
    return exe


def api_json(variant='exit'):
    exe = build_driver(variant)
    return json.load(open(os.path.join(os.path.dirname(exe), 'api.json')))


def esc(s):
    return s.replace('\\', '\\\\').replace('\t', '\\t').replace('\n', '\\n').replace('\r', '\\r').replace('\x00', '\\0')


def run_driver(exe, script_lines, log_path, fill=None, timeout=120, env=None):
    """Returns (returncode, events).  script_lines: list of lists of fields."""
    spath = log_path + '.script'
    with open(spath, 'w') as f:
        for fields in script_lines:
            f.write('\t'.join(esc(str(x)) for x in fields) + '\n')
    cmd = [exe, spath, log_path]
    if fill is not None:
        cmd.append(str(fill))
    e = dict(os.environ)
    e.setdefault('ASAN_OPTIONS', 'detect_leaks=1:abort_on_error=0:exitcode=97')
    e.setdefault('UBSAN_OPTIONS', 'print_stacktrace=1:halt_on_error=1:exitcode=98')
    if env:
        e.update(env)
    try:
        r = subprocess.run(cmd, stdout=subprocess.PIPE, stderr=subprocess.PIPE, text=True, timeout=timeout, env=e)
        rc, err = r.returncode, r.stderr
    except subprocess.TimeoutExpired:
        rc, err = -9, 'timeout'
    ev = []
    if os.path.exists(log_path):
        for line in open(log_path):
            line = line.strip()
            if line:
                try:
                    ev.append(json.loads(line))
                except ValueError:
                    ev.append({'op': 'garbled', 'raw': line})
    return rc, ev, err


_JAVA_OK = []
import threading
_JAVA_LOCK = threading.Lock()


def ensure_java_overrides(cwd):
    """MasaReal.class (the TLC module override of MasaReal.tla) is a build product: compile it when it is missing or
    older than its source (tools/setup.sh does the same; a fresh checkout that skipped setup still works)."""
    src = os.path.join(cwd, 'MasaReal.java'); cls = os.path.join(cwd, 'MasaReal.class')
    if cwd in _JAVA_OK or not os.path.exists(src):
        return
    with _JAVA_LOCK:
        _ensure_java_locked(cwd, src, cls)


def _ensure_java_locked(cwd, src, cls):
    if cwd in _JAVA_OK:
        return
    if not os.path.exists(cls) or os.path.getmtime(cls) < os.path.getmtime(src):
        tmp = os.path.join(CACHE, 'javac-%d' % os.getpid()); os.makedirs(tmp, exist_ok=True)
        r = subprocess.run(['javac', '-cp', TLA_JAR, '-d', tmp, src], stdout=subprocess.PIPE, stderr=subprocess.STDOUT, text=True)
        if r.returncode:
            raise InfraError('javac MasaReal.java failed: ' + r.stdout[-2000:])
        for f in os.listdir(tmp):
            os.replace(os.path.join(tmp, f), os.path.join(cwd, f))        # atomic per file: concurrent checks may do the same
        shutil.rmtree(tmp, ignore_errors=True)
    _JAVA_OK.append(cwd)


def tlc(module, cfg, cwd, env=None, workers=1, timeout=600, extra=None, classpath_extra=None, heap='4g', metadir=None):
    """Run TLC; returns (returncode, output)."""
    ensure_java_overrides(cwd)
    cp = [TLA_JAR, TLA_DEPS] + (classpath_extra or [])
    md = metadir or os.path.join(CACHE, 'tlc-meta', '%d-%d' % (os.getpid(), int(time.time() * 1e6) % 10**9))
    os.makedirs(md, exist_ok=True)
    cmd = ['java', '-Xss256m', '-XX:+UseSerialGC' if workers == 1 else '-XX:+UseParallelGC', '-Xmx' + heap,
           '-cp', ':'.join(cp), 'tlc2.TLC', '-workers', str(workers), '-metadir', md,
           '-config', cfg] + (extra or []) + [module]
    e = dict(os.environ)
    if env:
        e.update(env)
    try:
        r = subprocess.run(cmd, cwd=cwd, stdout=subprocess.PIPE, stderr=subprocess.STDOUT, text=True, timeout=timeout, env=e)
        rc, out = r.returncode, r.stdout
    except subprocess.TimeoutExpired as ex:
        rc, out = -9, (ex.stdout or b'').decode() if isinstance(ex.stdout, bytes) else (ex.stdout or '')
        out += '\nTIMEOUT'
    shutil.rmtree(md, ignore_errors=True)
    return rc, out


if __name__ == '__main__':
    if sys.argv[1] == 'driver':
        print(build_driver(sys.argv[2], len(sys.argv) > 3 and sys.argv[3] == 'alloc'))
    elif sys.argv[1] == 'lib':
        print(build_lib(sys.argv[2]))
