// driver.cpp -- executes a history script against the real MASA library and writes one ndjson
// event per public call, after the call returned (or while the process is being terminated by
// the call).  The driver is deliberately dumb: it decides nothing, it only performs and records.
//
//   driver <script> <log.ndjson> [fill]
//
// script: one call per line, TAB separated fields (\t \n \\ escapes inside a field)
//   init    p api handle name         select p api handle        list p api      printid p
//   setp    p api key hexval          getp   p api key           initp|purge|sanity|dispp|dispv|name|dim p api
//   setv    p api key n v1..vn        getv   p api key
//   eval    p api fn sig a1..ak [i] [cbkind c0 c1 c2]
//   reset   (marks the start of a new execution in a concatenated log; no library call)
// p in {d, ld}; api in {cxx, c} (c only with p = d).
//
// fill (optional, only when built with -DDRV_ALLOC): byte pattern for fresh heap memory.

#include <masa.h>
#include <cerrno>
#include <cfenv>
#include <cmath>
#include <csignal>
#include <cstdio>
#include <cstdlib>
#include <cstring>
#include <fcntl.h>
#include <fstream>
#include <iostream>
#include <malloc.h>
#include <string>
#include <sys/mman.h>
#include <sys/stat.h>
#include <unistd.h>
#include <vector>

extern "C" long masa_verif_live(int precision) __attribute__((weak));

// ---------------------------------------------------------------------------------------------
// optional allocator replacement: accounting + adversarial fill of fresh and freed memory
// ---------------------------------------------------------------------------------------------
static long g_heap_bytes = 0, g_heap_blocks = 0;
#ifdef DRV_ALLOC
static int g_fill = 0xCD;
// every block carries a 16-byte header: requested size and whether it was allocated inside a library call.
// heap/blocks count only memory allocated by the library (inside a public call) and not yet released, so the
// numbers do not depend on the driver's own strings and buffers.
static bool g_in_lib = false;
static void* drv_alloc(size_t n)
{
  unsigned char* raw = (unsigned char*)malloc(n + 16);
  if (!raw) { abort(); }
  ((size_t*)raw)[0] = n; ((size_t*)raw)[1] = g_in_lib ? 1 : 0;
  memset(raw + 16, g_fill, n);
  if (g_in_lib) { g_heap_bytes += long(n); ++g_heap_blocks; }
  return raw + 16;
}
static void drv_free(void* p)
{
  if (!p) return;
  unsigned char* raw = (unsigned char*)p - 16;
  size_t n = ((size_t*)raw)[0];
  if (((size_t*)raw)[1]) { g_heap_bytes -= long(n); --g_heap_blocks; }
  memset(raw + 16, 0xDD, n);
  free(raw);
}
void* operator new(size_t n)   { return drv_alloc(n); }
void* operator new[](size_t n) { return drv_alloc(n); }
void operator delete(void* p) noexcept   { drv_free(p); }
void operator delete[](void* p) noexcept { drv_free(p); }
void operator delete(void* p, size_t) noexcept   { drv_free(p); }
void operator delete[](void* p, size_t) noexcept { drv_free(p); }
#endif

// ---------------------------------------------------------------------------------------------
// callbacks (the reacting solution takes Scalar(*)(Scalar)); a named closed-form family
// ---------------------------------------------------------------------------------------------
static int g_cb_kind = 0;           // 0 const, 1 arrhenius a*T^b*exp(-c/T), 2 polynomial c0+c1 T+c2 T^2
static long double g_cb_c[3] = {1, 0, 0};
static std::vector<long double> g_cb_args;
template <typename Scalar> Scalar cb_fn(Scalar T)
{
  g_cb_args.push_back(T);
  Scalar c0 = Scalar(g_cb_c[0]), c1 = Scalar(g_cb_c[1]), c2 = Scalar(g_cb_c[2]);
  switch (g_cb_kind) {
    case 1:  return c0 * std::pow(T, c1) * std::exp(-c2 / T);
    case 2:  return c0 + c1 * T + c2 * T * T;
    default: return c0;
  }
}

struct Args { long double s[4]; int i; };

#ifndef DRV_ALLOC
static bool g_in_lib = false;
#endif
struct InLib { InLib() { g_in_lib = true; } ~InLib() { g_in_lib = false; } };
template <class F> auto lib(F f) -> decltype(f()) { InLib guard; return f(); }

#include "dispatch_gen.h"

// ---------------------------------------------------------------------------------------------
// logging
// ---------------------------------------------------------------------------------------------
static int g_log = -1;        // log file descriptor
static int g_cap = -1;        // memfd capturing the library's stdout
static long g_seq = 0;
static bool g_in_call = false;
static std::string g_pending; // the event prefix of the call in progress

static void wr(const std::string& s)
{
  const char* p = s.data(); size_t n = s.size();
  while (n) { ssize_t k = write(g_log, p, n); if (k <= 0) { if (errno == EINTR) continue; break; } p += k; n -= size_t(k); }
}
static std::string jstr(const std::string& s)
{
  std::string o = "\"";
  for (unsigned char c : s) {
    if (c == '"') o += "\\\""; else if (c == '\\') o += "\\\\";
    else if (c == '\n') o += "\\n"; else if (c == '\t') o += "\\t"; else if (c == '\r') o += "\\r";
    else if (c < 0x20 || c >= 0x7f) { char b[8]; snprintf(b, sizeof b, "\\u%04x", c); o += b; }
    else o += char(c);
  }
  return o + "\"";
}
static std::string hexd(double v)       { char b[64]; snprintf(b, sizeof b, "%a", v);  return b; }
static std::string hexl(long double v)  { char b[64]; snprintf(b, sizeof b, "%La", v); return b; }
template <typename S> std::string hexs(S v);
template <> std::string hexs<double>(double v)           { return hexd(v); }
template <> std::string hexs<long double>(long double v) { return hexl(v); }
// decimal rendering with enough digits to round-trip (human-readable companion, not used by the spec)
template <typename S> std::string decs(S v) { char b[80]; snprintf(b, sizeof b, "%.21Lg", (long double)v); return b; }

static std::string captured()
{
  fflush(stdout); std::cout.flush();
  off_t n = lseek(g_cap, 0, SEEK_CUR);
  std::string s; s.resize(size_t(n > 0 ? n : 0));
  if (n > 0) { ssize_t k = pread(g_cap, &s[0], size_t(n), 0); if (k < 0) s.clear(); else s.resize(size_t(k)); }
  if (ftruncate(g_cap, 0) != 0) {}
  lseek(g_cap, 0, SEEK_SET);
  return s;
}
static std::string tags_of(const std::string& out)
{
  bool fatal = out.find("MASA FATAL ERROR") != std::string::npos;
  bool serr  = out.find("SMASA ERROR") != std::string::npos;
  bool warn  = out.find("MASA WARNING") != std::string::npos;
  bool err = false;
  for (size_t p = out.find("MASA ERROR"); p != std::string::npos; p = out.find("MASA ERROR", p + 1))
    if (p == 0 || out[p - 1] != 'S') err = true;
  std::string t = "[";
  if (fatal) t += "\"FATAL\",";
  if (err)   t += "\"ERROR\",";
  if (serr)  t += "\"SERROR\",";
  if (warn)  t += "\"WARNING\",";
  if (t.size() > 1) t.erase(t.size() - 1);
  return t + "]";
}
static std::string live_json()
{
  long a = masa_verif_live ? masa_verif_live(0) : -1, b = masa_verif_live ? masa_verif_live(1) : -1;
  char buf[128]; snprintf(buf, sizeof buf, "\"live\":[%ld,%ld],\"heap\":%ld,\"blocks\":%ld", a, b, g_heap_bytes, g_heap_blocks);
  return buf;
}
// finish the event of the call in progress
static int g_ambient = 0;
static void finish(const std::string& extra, const std::string& end, const std::string* out_override = 0)
{
  std::string out = out_override ? *out_override : captured();
  std::string e = g_pending;
  if (!extra.empty()) e += "," + extra;
  e += ",\"end\":" + jstr(end) + ",\"tags\":" + tags_of(out) + "," + live_json() + "}\n";
  wr(e);
  g_in_call = false;
}
static void on_exit_handler(int status, void*)
{
  if (g_in_call) { char b[32]; snprintf(b, sizeof b, "exit%d", status); finish("", b); }
}
static void on_signal(int sig)
{
  if (g_in_call) { char b[32]; snprintf(b, sizeof b, "signal%d", sig); std::string none; finish("", b, &none); }
  _exit(70);
}
static void on_terminate()
{
  if (g_in_call) finish("", "terminate");
  _exit(71);
}
__attribute__((destructor)) static void at_fini()
{
  // runs after every C++ static destructor (the library's registries are gone by now)
  if (g_log >= 0) { wr("{\"op\":\"fini\"," + live_json() + "}\n"); }
}

// ---------------------------------------------------------------------------------------------
// script parsing
// ---------------------------------------------------------------------------------------------
static std::vector<std::string> split(const std::string& line)
{
  std::vector<std::string> f(1);
  for (size_t i = 0; i < line.size(); ++i) {
    char c = line[i];
    if (c == '\t') f.push_back("");
    else if (c == '\\' && i + 1 < line.size()) {
      char d = line[++i];
      f.back() += d == 't' ? '\t' : d == 'n' ? '\n' : d == 'r' ? '\r' : d == '0' ? '\0' : d;
    } else f.back() += c;
  }
  return f;
}
static long double num(const std::string& s) { return strtold(s.c_str(), 0); }

// parse "handle : name" lines of masa_list_mms
static std::string parse_list(const std::string& out)
{
  std::string j = "[", cnt = "-1";
  size_t pos = 0; bool first = true;
  while (pos < out.size()) {
    size_t nl = out.find('\n', pos); if (nl == std::string::npos) nl = out.size();
    std::string line = out.substr(pos, nl - pos); pos = nl + 1;
    const char* hdr = "Number of initialized solutions: ";
    if (line.compare(0, strlen(hdr), hdr) == 0) { cnt = line.substr(strlen(hdr)); continue; }
    size_t c = line.rfind(" : ");
    if (c == std::string::npos) continue;
    if (!first) j += ","; first = false;
    j += "{\"h\":" + jstr(line.substr(0, c)) + ",\"s\":" + jstr(line.substr(c + 3)) + "}";
  }
  return "\"n\":" + jstr(cnt) + ",\"out\":" + j + "]";
}
static std::string parse_printid(const std::string& out)
{
  std::string j = "["; bool in = false, first = true; size_t pos = 0;
  while (pos < out.size()) {
    size_t nl = out.find('\n', pos); if (nl == std::string::npos) nl = out.size();
    std::string line = out.substr(pos, nl - pos); pos = nl + 1;
    if (line.find("*-----") == 0) { if (in) break; in = true; continue; }
    // the first name follows the opening rule on the next line
    if (!in || line.empty()) continue;
    if (!first) j += ","; first = false;
    j += jstr(line);
  }
  return "\"out\":" + j + "]";
}
static std::string parse_disp(const std::string& out, const char* sep, const char* field)
{
  std::string j = "["; bool first = true; size_t pos = 0; size_t sl = strlen(sep);
  while (pos < out.size()) {
    size_t nl = out.find('\n', pos); if (nl == std::string::npos) nl = out.size();
    std::string line = out.substr(pos, nl - pos); pos = nl + 1;
    size_t c = line.find(sep);
    if (c == std::string::npos) continue;
    if (!first) j += ","; first = false;
    std::string val = line.substr(c + sl);
    bool as_int = field[0] == 'n' && !val.empty() && val.find_first_not_of("0123456789") == std::string::npos;
    j += "{\"k\":" + jstr(line.substr(0, c)) + ",\"" + field + "\":" + (as_int ? val : jstr(val)) + "}";
  }
  return "\"out\":" + j + "]";
}
static std::string parse_warn(const std::string& out)
{
  // "MASA WARNING:: <name> has not been initialized!" / "MASA WARNING:: vector <name> has not been initialized!"
  std::string j = "["; bool first = true;
  const std::string k = "MASA WARNING:: ", e = " has not been initialized!";
  for (size_t p = out.find(k); p != std::string::npos; p = out.find(k, p + 1)) {
    size_t q = out.find(e, p); if (q == std::string::npos) break;
    std::string nm = out.substr(p + k.size(), q - p - k.size());
    if (nm.compare(0, 7, "vector ") == 0) nm = nm.substr(7);
    if (!first) j += ","; first = false;
    j += jstr(nm);
  }
  return "\"warn\":" + j + "]";
}

// ---------------------------------------------------------------------------------------------
// structured, precision-exact rendering of the arguments (known before the call)
// ---------------------------------------------------------------------------------------------
template <typename Scalar>
static std::string pre_fields(const std::vector<std::string>& f)
{
  const std::string& op = f[0];
  std::string e;
  if (op == "init" && f.size() > 4) {
    e += ",\"h\":" + jstr(f[3]) + ",\"sc\":[";
    for (size_t i = 0; i < f[4].size(); ++i) e += (i ? "," : "") + std::to_string(int((unsigned char)f[4][i]));
    e += "]";
  } else if (op == "select" && f.size() > 3) {
    e += ",\"h\":" + jstr(f[3]);
  } else if ((op == "setp" || op == "getp" || op == "getv") && f.size() > 3) {
    e += ",\"k\":" + jstr(f[3]);
    if (op == "setp" && f.size() > 4) e += ",\"v\":" + jstr(hexs<Scalar>(Scalar(num(f[4]))));
  } else if (op == "setv" && f.size() > 4) {
    int n = atoi(f[4].c_str());
    e += ",\"k\":" + jstr(f[3]) + ",\"v\":[";
    for (int i = 0; i < n && 5 + size_t(i) < f.size(); ++i) e += (i ? "," : "") + jstr(hexs<Scalar>(Scalar(num(f[5 + size_t(i)]))));
    e += "]";
  } else if (op == "eval" && f.size() > 4) {
    const std::string& sig = f[4];
    e += ",\"fn\":" + jstr(f[3]) + ",\"sig\":" + jstr(sig) + ",\"a\":[";
    size_t k = 5; bool first = true; std::string di, cb;
    for (char c : sig) {
      if (c == 'S' && k < f.size()) { e += (first ? "" : ",") + jstr(hexs<Scalar>(Scalar(num(f[k++])))); first = false; }
      else if (c == 'I' && k < f.size()) di = f[k++];
      else if (c == 'F' && k + 3 < f.size()) {
        cb = "[" + jstr(f[k]);
        for (int j = 1; j <= 3; ++j) cb += "," + jstr(hexs<Scalar>(Scalar(num(f[k + size_t(j)]))));
        cb += "]"; k += 4;
      }
    }
    e += "]";
    e += ",\"di\":" + (di.empty() ? std::string("0") : std::to_string(atoi(di.c_str())));
    e += std::string(",\"ni\":") + (di.empty() ? "0" : "1");
    std::string pair;
    for (size_t q = k; q < f.size(); ++q) if (f[q].compare(0, 5, "pair:") == 0) pair = f[q].substr(5);
    e += ",\"pair\":" + jstr(pair);
    e += ",\"cb\":" + (cb.empty() ? std::string("[]") : cb);
  }
  return e;
}

// ---------------------------------------------------------------------------------------------
// one call
// ---------------------------------------------------------------------------------------------
template <typename Scalar>
static void do_call(const std::vector<std::string>& f, bool capi)
{
  const std::string& op = f[0];
  std::string extra; bool parse_l = false, parse_p = false, parse_dp = false, parse_dv = false, parse_w = false;
  if (op == "init") {
    int r = lib([&]{ return capi ? masa_init(f[3].c_str(), f[4].c_str()) : MASA::masa_init<Scalar>(f[3], f[4]); });
    extra = "\"ret\":" + std::to_string(r);
  } else if (op == "select") {
    int r = lib([&]{ return capi ? masa_select_mms(f[3].c_str()) : MASA::masa_select_mms<Scalar>(f[3]); });
    extra = "\"ret\":" + std::to_string(r);
  } else if (op == "list") {
    int r = lib([&]{ return capi ? masa_list_mms() : MASA::masa_list_mms<Scalar>(); });
    extra = "\"ret\":" + std::to_string(r); parse_l = true;
  } else if (op == "printid") {
    int r = lib([&]{ return MASA::masa_printid<Scalar>(); });
    extra = "\"ret\":" + std::to_string(r); parse_p = true;
  } else if (op == "setp") {
    Scalar v = Scalar(num(f[4]));
    lib([&]{ if (capi) masa_set_param(f[3].c_str(), double(v)); else MASA::masa_set_param<Scalar>(f[3], v); });
  } else if (op == "getp") {
    Scalar r = lib([&]{ return capi ? Scalar(masa_get_param(f[3].c_str())) : MASA::masa_get_param<Scalar>(f[3]); });
    extra = "\"ret\":" + jstr(hexs<Scalar>(r)) + ",\"dec\":" + jstr(decs<Scalar>(r));
  } else if (op == "initp") {
    int r = lib([&]{ return capi ? masa_init_param() : MASA::masa_init_param<Scalar>(); });
    extra = "\"ret\":" + std::to_string(r);
  } else if (op == "purge") {
    int r = lib([&]{ return capi ? masa_purge_default_param() : MASA::masa_purge_default_param<Scalar>(); });
    extra = "\"ret\":" + std::to_string(r);
  } else if (op == "sanity") {
    int r = lib([&]{ return capi ? masa_sanity_check() : MASA::masa_sanity_check<Scalar>(); });
    extra = "\"ret\":" + std::to_string(r); parse_w = true;
  } else if (op == "dispp") {
    int r = lib([&]{ return capi ? masa_display_param() : MASA::masa_display_param<Scalar>(); });
    extra = "\"ret\":" + std::to_string(r); parse_dp = true;
  } else if (op == "dispv") {
    int r = lib([&]{ return capi ? masa_display_array() : MASA::masa_display_vec<Scalar>(); });
    extra = "\"ret\":" + std::to_string(r); parse_dv = true;
  } else if (op == "name") {
    if (capi) {
      // the caller's buffer holds non-zero bytes beyond any name: a missing terminator shows
      char buf[256]; memset(buf, 'x', sizeof buf); memcpy(buf, "?unset?", 7); buf[200] = 0;
      int r = lib([&]{ return masa_get_name(buf); }); buf[255] = 0;
      extra = "\"ret\":" + std::to_string(r) + ",\"v\":" + jstr(buf);
    } else {
      std::string s = "?unset?"; int r = lib([&]{ return MASA::masa_get_name<Scalar>(&s); });
      extra = "\"ret\":" + std::to_string(r) + ",\"v\":" + jstr(s);
    }
  } else if (op == "dim") {
    int d = -777; int r = lib([&]{ return capi ? masa_get_dimension(&d) : MASA::masa_get_dimension<Scalar>(&d); });
    extra = "\"ret\":" + std::to_string(r) + ",\"v\":" + std::to_string(d);
  } else if (op == "setv") {
    int n = atoi(f[4].c_str());
    if (capi) {
      std::vector<double> a(size_t(n) + 1, 0.0);
      for (int i = 0; i < n; ++i) a[size_t(i)] = double(num(f[5 + size_t(i)]));
      lib([&]{ masa_set_array(f[3].c_str(), &n, &a[0]); });
    } else {
      std::vector<Scalar> v; for (int i = 0; i < n; ++i) v.push_back(Scalar(num(f[5 + size_t(i)])));
      lib([&]{ MASA::masa_set_vec<Scalar>(f[3], v); });
    }
  } else if (op == "getv") {
    std::string vj = "[";
    if (capi) {
      const int cap = 64; std::vector<double> a(cap, -7777.0); int n = -7;
      int r = lib([&]{ return masa_get_array(f[3].c_str(), &n, &a[0]); });
      for (int i = 0; i < n && i < cap; ++i) vj += (i ? "," : "") + jstr(hexd(a[size_t(i)]));
      extra = "\"ret\":" + std::to_string(r) + ",\"n\":" + std::to_string(n) + ",\"v\":" + vj + "]";
    } else {
      std::vector<Scalar> v; v.push_back(Scalar(-7777)); v.push_back(Scalar(-7777)); v.push_back(Scalar(-7777));
      int r = lib([&]{ return MASA::masa_get_vec<Scalar>(f[3], v); });
      for (size_t i = 0; i < v.size(); ++i) vj += (i ? "," : "") + jstr(hexs<Scalar>(v[i]));
      extra = "\"ret\":" + std::to_string(r) + ",\"n\":" + std::to_string(v.size()) + ",\"v\":" + vj + "]";
    }
  } else if (op == "eval") {
    const std::string& fn = f[3]; const std::string& sig = f[4];
    Args a; memset(&a, 0, sizeof a); size_t k = 5; int si = 0;
    for (char c : sig) {
      if (c == 'S') a.s[si++] = num(f[k++]);
      else if (c == 'I') a.i = atoi(f[k++].c_str());
      else if (c == 'F') {
        const std::string& kind = f[k++];
        g_cb_kind = kind == "arr" ? 1 : kind == "poly" ? 2 : 0;
        for (int j = 0; j < 3; ++j) g_cb_c[j] = num(f[k++]);
      }
    }
    g_cb_args.clear();
    Scalar r = 0; bool found = false;
    if (capi) {
      std::string cname;
      for (size_t q = k; q < f.size(); ++q) if (f[q].compare(0, 5, "pair:") != 0) { cname = f[q]; break; }
      for (int i = 0; i < c_table_n; ++i)
        if (fn == c_table[i].fn && sig == c_table[i].sig && (cname.empty() || cname == c_table[i].cname)) { r = lib([&]{ return Scalar(c_table[i].call(a)); }); found = true; break; }
    } else {
      int n; const CxxEval<Scalar>* T = cxx_table<Scalar>(&n);
      for (int i = 0; i < n; ++i)
        if (fn == T[i].fn && sig == T[i].sig) { r = lib([&]{ return T[i].call(a); }); found = true; break; }
    }
    if (!found) { finish("\"skip\":true", "nodispatch"); return; }
    extra = "\"ret\":" + jstr(hexs<Scalar>(r)) + ",\"dec\":" + jstr(decs<Scalar>(r));
    extra += std::string(",\"fin\":") + (std::isfinite(r) ? "true" : "false");
    if (!g_cb_args.empty()) {
      extra += ",\"cbargs\":[";
      for (size_t i = 0; i < g_cb_args.size(); ++i) extra += (i ? "," : "") + jstr(hexs<Scalar>(Scalar(g_cb_args[i])));
      extra += "]";
    }
  } else if (op == "testpoly") {
    int r = lib([&]{ return MASA::masa_test_poly<Scalar>(); });
    extra = "\"ret\":" + std::to_string(r);
  } else if (op == "version") {
    int r = lib([&]{ return MASA::masa_get_numeric_version(); });
    int r2 = lib([&]{ return MASA::masa_version_stdout(); });
    extra = "\"ret\":" + std::to_string(r) + ",\"ret2\":" + std::to_string(r2);
  } else if (op == "passfunc") {
    // passfunc p api a kind c0 c1 c2
    Scalar a0 = Scalar(num(f[3]));
    g_cb_kind = f[4] == "arr" ? 1 : f[4] == "poly" ? 2 : 0;
    for (int j = 0; j < 3; ++j) g_cb_c[j] = num(f[5 + size_t(j)]);
    g_cb_args.clear();
    Scalar r = lib([&]{ return MASA::pass_func<Scalar>(&cb_fn<Scalar>, a0); });
    extra = "\"ret\":" + jstr(hexs<Scalar>(r)) + ",\"a\":" + jstr(hexs<Scalar>(a0)) + ",\"ncb\":" + std::to_string(g_cb_args.size());
    extra += ",\"cb\":[" + jstr(f[4]);
    for (int j = 0; j < 3; ++j) extra += "," + jstr(hexs<Scalar>(Scalar(g_cb_c[j])));
    extra += "]";
  } else if (op == "testdefault") {
    // always terminates the process: status 1 when the value is the marker or the sentinel, 0 otherwise
    Scalar v = Scalar(num(f[3]));
    g_pending += ",\"v\":" + jstr(hexs<Scalar>(v));
    int r = lib([&]{ return capi ? masa_test_default(double(v)) : MASA::masa_test_default<Scalar>(v); });
    extra = "\"ret\":" + std::to_string(r);
  } else if (op == "ambient") {
    // the environment's step: process-global C state the library neither owns nor may depend on -- errno left behind by an
    // earlier (failed) library call of the caller, the floating-point exception flags.  No MASA function is called.
    // It stays that way (re-established before every following call) until the next ambient step.
    g_ambient = f.size() > 3 && f[3] == "erange" ? ERANGE : f.size() > 3 && f[3] == "clear" ? 0 : EDOM;
    if (!g_ambient) { feclearexcept(FE_ALL_EXCEPT); errno = 0; }
    extra = "\"ret\":0";
    finish(extra, "ret"); return;
  } else {
    finish("\"skip\":true", "unknownop"); return;
  }
  std::string out = captured();
  if (parse_l)  extra += "," + parse_list(out);
  if (parse_p)  extra += "," + parse_printid(out);
  if (parse_dp) extra += "," + parse_disp(out, " is set to: ", "v");
  if (parse_dv) extra += "," + parse_disp(out, " is size: ", "n");
  if (parse_w)  extra += "," + parse_warn(out);
  finish(extra, "ret", &out);
}

#ifndef DRIVER_NO_MAIN
// the calls of a "late" section are made from an atexit handler that was registered BEFORE the first MASA call (a program
// that reads a parameter or evaluates in its own clean-up code): the library's registries must still be alive then.
static std::vector<std::vector<std::string> > g_late;
static bool g_main_done = false;
static void run_line(const std::vector<std::string>& f);
static void run_late()
{
  if (!g_main_done) return;
  for (size_t i = 0; i < g_late.size(); ++i) run_line(g_late[i]);
  g_late.clear();
}
int main(int argc, char** argv)
{
  if (argc < 3) { fprintf(stderr, "usage: driver script log [fill]\n"); return 64; }
#ifdef DRV_ALLOC
  if (argc > 3) g_fill = int(strtol(argv[3], 0, 0)) & 0xff;
#endif
  g_log = open(argv[2], O_WRONLY | O_CREAT | O_TRUNC, 0644);
  if (g_log < 0) { perror("log"); return 64; }
  g_cap = memfd_create("masa-stdout", 0);
  if (g_cap < 0) { perror("memfd"); return 64; }
  fflush(stdout);
  dup2(g_cap, 1);
  on_exit(on_exit_handler, 0);
  atexit(run_late);
  std::set_terminate(on_terminate);
  signal(SIGSEGV, on_signal); signal(SIGBUS, on_signal); signal(SIGFPE, on_signal); signal(SIGABRT, on_signal); signal(SIGILL, on_signal);

  std::ifstream in(argv[1]);
  std::string line;
  bool late = false;
  while (std::getline(in, line)) {
    if (line.empty() || line[0] == '#') continue;
    std::vector<std::string> f = split(line);
    if (f[0] == "late") { late = true; continue; }
    if (late) { g_late.push_back(f); continue; }
    run_line(f);
  }
  wr("{\"i\":" + std::to_string(++g_seq) + ",\"op\":\"end\"," + live_json() + "}\n");
  g_main_done = true;
  return 0;
}
static void run_line(const std::vector<std::string>& f)
{
  {
    ++g_seq;
    if (f[0] == "reset") { wr("{\"i\":" + std::to_string(g_seq) + ",\"op\":\"reset\"}\n"); return; }
    if (f.size() < 2) return;
    bool ld = f[1] == "ld"; bool capi = f.size() > 2 && f[2] == "c";
    // the event prefix: everything known before the call
    std::string e = "{\"i\":" + std::to_string(g_seq) + ",\"op\":" + jstr(f[0]) + ",\"p\":" + jstr(ld ? "ld" : "d") + ",\"api\":" + jstr(capi ? "c" : "cxx");
    e += ",\"f\":[";
    for (size_t i = 3; i < f.size(); ++i) e += (i > 3 ? "," : "") + jstr(f[i]);
    e += "]";
    e += ld ? pre_fields<long double>(f) : pre_fields<double>(f);
    g_pending = e; g_in_call = true;
    if (g_ambient) { feraiseexcept(FE_INVALID | FE_DIVBYZERO | FE_OVERFLOW | FE_UNDERFLOW | FE_INEXACT); errno = g_ambient; }
    try {
      if (ld) do_call<long double>(f, false); else do_call<double>(f, capi);
    } catch (int code) {
      finish("", "throw" + std::to_string(code));
    } catch (...) {
      finish("", "throwX");
    }
  }
}
#endif // DRIVER_NO_MAIN
