#!/usr/bin/env python3
"""One-off generator of the *frozen* catalogue (spec/catalog.json -> spec/MasaCatalog.tla).

Run by hand at the pinned commit; its output is committed and is the specification's statement
of what the catalogue is.  Checks never regenerate it -- they compare the build under test
against it.

Sources, cross-checked against each other:
  * static: class declarations in src/masa_internal.h (which evaluator methods a class declares),
            mmsname/dimension assignments in the constructors, register_var/register_vec calls
  * runtime: the driver, one process per solution: names from masa_printid, dimension,
            parameter names (masa_display_param), vector names, and which overloads return the sentinel
"""
import json, os, re, sys
sys.path.insert(0, os.path.join(os.path.dirname(os.path.abspath(__file__)), '..', 'harness'))
import mk

REPO = mk.REPO

# public evaluator name -> base-class method, as wired in masa_core.cpp *by naming convention*
def method_of(fn):
    special = {'source_boundary': 'eval_q_u_boundary', 'likelyhood': 'eval_likelyhood',
               'loglikelyhood': 'eval_loglikelyhood', 'prior': 'eval_prior', 'posterior': 'eval_posterior',
               'central_moment': 'eval_cen_mom', 'posterior_mean': 'eval_post_mean',
               'posterior_variance': 'eval_post_var'}
    if fn in special:
        return special[fn]
    kind, field = fn.split('_', 1)
    return {'source': 'eval_q_', 'exact': 'eval_exact_', 'grad': 'eval_g_'}[kind] + field


def strip_comments(s):
    s = re.sub(r'/\*.*?\*/', ' ', s, flags=re.S)
    return re.sub(r'//[^\n]*', ' ', s)


def sig_of(args):
    args = args.strip()
    if args in ('', 'void'):
        return ''
    out = ''
    depth, cur, parts = 0, '', []
    for ch in args:
        if ch == '(':
            depth += 1
        if ch == ')':
            depth -= 1
        if ch == ',' and depth == 0:
            parts.append(cur); cur = ''
        else:
            cur += ch
    parts.append(cur)
    for p in parts:
        p = p.strip()
        out += 'F' if '(*' in p else 'I' if re.match(r'^(const\s+)?int\b', p) else 'S'
    return out


def static_classes():
    s = strip_comments(open(REPO + '/src/masa_internal.h').read())
    s += strip_comments(open(REPO + '/src/nsctpl_fwd.hpp').read())
    classes = {}
    for m in re.finditer(r'class\s+(\w+)\s*:\s*public\s+manufactured_solution<Scalar>([^{]*)\{', s):
        name = m.group(1)
        # find matching brace
        i, depth = m.end(), 1
        while depth and i < len(s):
            depth += {'{': 1, '}': -1}.get(s[i], 0); i += 1
        body = s[m.end():i]
        meths = set()
        for mm in re.finditer(r'\bScalar\s+(eval_\w+)\s*\(([^;{]*?)\)\s*(const)?\s*[;{]', body):
            meths.add((mm.group(1), sig_of(mm.group(2))))
        classes[name] = meths
    return classes


def ctor_names():
    out = {}
    for f in os.listdir(REPO + '/src'):
        if not f.endswith('.cpp'):
            continue
        s = strip_comments(open(REPO + '/src/' + f).read())
        for m in re.finditer(r'MASA::(\w+)<Scalar>::\1\s*\(\s*\)[^{]*\{', s):
            i, depth = m.end(), 1
            while depth and i < len(s):
                depth += {'{': 1, '}': -1}.get(s[i], 0); i += 1
            body = s[m.end():i]
            nm = re.search(r'mmsname\s*=\s*"([^"]*)"', body)
            dm = re.search(r'dimension\s*=\s*(\d+)', body)
            if nm:
                out[m.group(1)] = (nm.group(1), int(dm.group(1)) if dm else None)
    return out


def main():
    exe = mk.build_driver('exc')
    api = mk.api_json('exc')
    tmp = os.path.join(mk.CACHE, 'gencat'); os.makedirs(tmp, exist_ok=True)
    rc, ev, err = mk.run_driver(exe, [['printid', 'd'], ['printid', 'ld']], tmp + '/p.ndjson')
    names = ev[0]['out']
    assert names == ev[1]['out']
    classes = static_classes()
    ctors = ctor_names()
    by_name = {v[0]: (k, v[1]) for k, v in ctors.items()}
    cat = []
    for n in names:
        script = [['init', 'd', 'cxx', 'h', n], ['dim', 'd', 'cxx'], ['dispp', 'd', 'cxx'], ['dispv', 'd', 'cxx']]
        for e in api['cxx']:
            pt = ['0x1.8p-2', '0x1.4p-1', '0x1.cp-2', '0x1.2p-1']
            args, si = [], 0
            for ch in e['sig']:
                if ch == 'S':
                    args.append(pt[si]); si += 1
                elif ch == 'I':
                    args.append('1')
                else:
                    args += ['const', '0x1p+0', '0', '0']
            script.append(['eval', 'd', 'cxx', e['fn'], e['sig']] + args)
        rc, ev, err = mk.run_driver(exe, script, tmp + '/s.ndjson')
        dim = ev[1].get('v')
        pars = sorted(x['k'] for x in ev[2].get('out', []))
        vecs = sorted(x['k'] for x in ev[3].get('out', [])) if ev[3].get('end') == 'ret' else None
        runtime = set()
        for e in ev[4:]:
            if e.get('op') != 'eval':
                continue
            if e.get('end') == 'ret' and not ('ERROR' in e['tags'] or 'SERROR' in e['tags']):
                runtime.add((e['f'][0], e['f'][1]))
        cls, sdim = by_name.get(n, (None, None))
        if n == 'navierstokes_4d_compressible_powerlaw':
            cls = 'navierstokes_4d_compressible_powerlaw'
        static = set()
        decl = classes.get(cls, set())
        for e in api['cxx']:
            if (method_of(e['fn']), e['sig']) in decl:
                static.add((e['fn'], e['sig']))
        print('%-45s class=%-35s dim=%s/%s pars=%d vecs=%s static=%d runtime=%d' % (n, cls, dim, sdim, len(pars), vecs, len(static), len(runtime)))
        if static != runtime:
            print('   static-only :', sorted(static - runtime))
            print('   runtime-only:', sorted(runtime - static))
        cat.append(dict(name=n, cls=cls, dim=dim, pars=pars, vecs=vecs, caps_static=sorted(static), caps_runtime=sorted(runtime)))
    json.dump(cat, open(os.path.join(os.path.dirname(os.path.abspath(__file__)), 'catalog_probe.json'), 'w'), indent=1)


if __name__ == '__main__':
    main()
