------------------------------- MODULE MasaPDE -------------------------------
(***************************************************************************************)
(* Governing operators on jets.  Variables: 1 = x (or r), 2 = y (or z of the           *)
(* axisymmetric solutions), 3 = z, 4 = t.  Each operator takes the primitive fields as *)
(* 2-jets and returns the residual as a number (val, mag).  Every flux is formed as a  *)
(* jet and differentiated once; viscous stresses and heat fluxes are formed from the   *)
(* derivative jets JD(field, i) and differentiated once.  Written from the equations   *)
(* in doxygen/solutions/{heat,euler,cns,laplace,burgers}.page and the property texts;  *)
(* validated against textbook exact solutions in MC_Oracle.tla.                        *)
(***************************************************************************************)
EXTENDS MasaJet

Half == NFromRat(1, 2)
TwoThirds == NFromRat(2, 3)
N2 == NFromInt(2)

Sum3(F(_)) == NAdd(NAdd(F(1), F(2)), F(3))
JSum3(F(_)) == JAdd(JAdd(F(1), F(2)), F(3))

\* ---------------------------------------------------------------- heat conduction (heat.page eq. 1)
\* rho cp(T) dT/dt - div(k(T) grad T), K and CP jets (functions of T), T the temperature jet
HeatResidual(rho, CP, K, T) ==
  LET Flux(i) == JG(JMul(K, JD(T, i)), i)
  IN  NSub(NMul(NMul(rho, JV(CP)), JG(T, 4)), Sum3(Flux))

\* ---------------------------------------------------------------- Laplace, Burgers
Laplacian(phi) == NAdd(JH(phi, 1, 1), JH(phi, 2, 2))
\* u_t + (uu)_x + (uv)_y - nu Lap u ,  v_t + (uv)_x + (vv)_y - nu Lap v
BurgersU(u, v, nu) == NSub(NAdd(JG(u, 4), NAdd(JG(JMul(u, u), 1), JG(JMul(u, v), 2))), NMul(nu, NAdd(JH(u, 1, 1), JH(u, 2, 2))))
BurgersV(u, v, nu) == NSub(NAdd(JG(v, 4), NAdd(JG(JMul(u, v), 1), JG(JMul(v, v), 2))), NMul(nu, NAdd(JH(v, 1, 1), JH(v, 2, 2))))

\* ---------------------------------------------------------------- inviscid gas dynamics (euler.page)
\* F: record of jets rho, u (3-tuple of velocity jets), p; gamma a number
KinE(F)   == JScale(Half, JAdd(JAdd(JSq(F.u[1]), JSq(F.u[2])), JSq(F.u[3])))
\* e_t = p/((gamma-1) rho) + |u|^2/2 ;  H = e_t + p/rho
TotalE(F, gamma) == JAdd(JDiv(F.p, JScale(NSub(gamma, N1), F.rho)), KinE(F))
Enthalpy(F, gamma) == JAdd(TotalE(F, gamma), JDiv(F.p, F.rho))

EulerMass(F) == LET Fl(i) == JG(JMul(F.rho, F.u[i]), i) IN NAdd(JG(F.rho, 4), Sum3(Fl))
EulerMom(F, k) ==
  LET m == JMul(F.rho, F.u[k])
      Fl(i) == JG(JMul(m, F.u[i]), i)
  IN  NAdd(NAdd(JG(m, 4), Sum3(Fl)), JG(F.p, k))
EulerEnergy(F, gamma) ==
  LET rE == JMul(F.rho, TotalE(F, gamma))
      rH == JMul(F.rho, Enthalpy(F, gamma))
      Fl(i) == JG(JMul(rH, F.u[i]), i)
  IN  NAdd(JG(rE, 4), Sum3(Fl))

\* ---------------------------------------------------------------- Navier-Stokes (cns.page eqs. 1-7)
\* mu, kappa: jets (constant or functions of T); lambda: second viscosity jet (Stokes: -2/3 mu);
\* Temp: temperature jet.  tau_ij = mu (u_i,j + u_j,i) + lambda delta_ij div u ;  q = -kappa grad T
DivU(F) == JAdd(JAdd(JD(F.u[1], 1), JD(F.u[2], 2)), JD(F.u[3], 3))
Tau(F, mu, lambda, i, j) ==
  LET sh == JMul(mu, JAdd(JD(F.u[i], j), JD(F.u[j], i)))
  IN  IF i = j THEN JAdd(sh, JMul(lambda, DivU(F))) ELSE sh
StokesLambda(mu) == JScale(NNeg(TwoThirds), mu)

NSMom(F, mu, lambda, k) ==
  LET V(i) == JG(Tau(F, mu, lambda, k, i), i) IN NSub(EulerMom(F, k), Sum3(V))
NSEnergy(F, gamma, mu, lambda, kappa, Temp) ==
  LET Work(i) == LET W(k) == JMul(Tau(F, mu, lambda, i, k), F.u[k]) IN JG(JSum3(W), i)
      Heat(i) == JG(JMul(kappa, JD(Temp, i)), i)
  IN  NSub(NSub(EulerEnergy(F, gamma), Sum3(Work)), Sum3(Heat))

\* ---------------------------------------------------------------- axisymmetric forms (r = variable 1, z = variable 2)
\* velocity F.u[1] radial, F.u[2] axial; R the jet of the coordinate r
AxiDiv(R, Fr, Fz) == NAdd(NDiv(JG(JMul(R, Fr), 1), JV(R)), JG(Fz, 2))
AxiMass(F, R) == NAdd(JG(F.rho, 4), AxiDiv(R, JMul(F.rho, F.u[1]), JMul(F.rho, F.u[2])))
AxiMom(F, R, k) ==
  LET m == JMul(F.rho, F.u[k])
  IN  NAdd(NAdd(JG(m, 4), AxiDiv(R, JMul(m, F.u[1]), JMul(m, F.u[2]))), JG(F.p, k))
AxiEnergy(F, R, gamma) ==
  LET rE == JMul(F.rho, TotalE(F, gamma))
      rH == JMul(F.rho, Enthalpy(F, gamma))
  IN  NAdd(JG(rE, 4), AxiDiv(R, JMul(rH, F.u[1]), JMul(rH, F.u[2])))

\* Newtonian stresses in cylindrical coordinates (swirl-free), as 1-jets
AxiDivU(F, R) == JAdd(JAdd(JD(F.u[1], 1), JDiv(F.u[1], R)), JD(F.u[2], 2))
AxiTauRR(F, R, mu) == JMul(mu, JSub(JScale(N2, JD(F.u[1], 1)), JScale(TwoThirds, AxiDivU(F, R))))
AxiTauZZ(F, R, mu) == JMul(mu, JSub(JScale(N2, JD(F.u[2], 2)), JScale(TwoThirds, AxiDivU(F, R))))
AxiTauTT(F, R, mu) == JMul(mu, JSub(JScale(N2, JDiv(F.u[1], R)), JScale(TwoThirds, AxiDivU(F, R))))
AxiTauRZ(F, R, mu) == JMul(mu, JAdd(JD(F.u[1], 2), JD(F.u[2], 1)))
AxiNSMomR(F, R, mu) ==
  NSub(AxiMom(F, R, 1),
       NSub(AxiDiv(R, AxiTauRR(F, R, mu), AxiTauRZ(F, R, mu)), NDiv(JV(AxiTauTT(F, R, mu)), JV(R))))
AxiNSMomZ(F, R, mu) ==
  NSub(AxiMom(F, R, 2), AxiDiv(R, AxiTauRZ(F, R, mu), AxiTauZZ(F, R, mu)))
AxiNSEnergy(F, R, gamma, mu, kappa, Temp) ==
  LET wr == JAdd(JMul(AxiTauRR(F, R, mu), F.u[1]), JMul(AxiTauRZ(F, R, mu), F.u[2]))
      wz == JAdd(JMul(AxiTauRZ(F, R, mu), F.u[1]), JMul(AxiTauZZ(F, R, mu), F.u[2]))
  IN  NSub(NSub(AxiEnergy(F, R, gamma), AxiDiv(R, wr, wz)),
           AxiDiv(R, JMul(kappa, JD(Temp, 1)), JMul(kappa, JD(Temp, 2))))

\* ---------------------------------------------------------------- Spalart-Allmaras closure (C05)
\* f_v1 = chi^3/(chi^3 + c_v1^3) as a jet (so that the eddy viscosity can be differentiated in space)
SAfv1(chi, cv1) == LET c3 == JMul(chi, JSq(chi)) IN JDiv(c3, JAdd(c3, JConst(NMul(cv1, NSq(cv1)))))
\* pointwise closure functions on numbers
SAfv2N(chi, fv1) == NSub(N1, NDiv(chi, NAdd(N1, NMul(chi, fv1))))
\* modified vorticity S~ = Omega + Sbar with the Johnson-Allmaras limiter (c_v2, c_v3)
SAStilde(Omega, Sbar, cv2, cv3) ==
  IF NLe(NNeg(NMul(cv2, Omega)), Sbar) THEN NAdd(Omega, Sbar)
  ELSE NAdd(Omega, NDiv(NMul(Omega, NAdd(NMul(NSq(cv2), Omega), NMul(cv3, Sbar))),
                        NSub(NMul(NSub(cv3, NMul(N2, cv2)), Omega), Sbar)))
SAfw(r, cw2, cw3) ==
  LET g  == NAdd(r, NMul(cw2, NSub(NPow(r, NFromInt(6)), r)))
      c6 == NPow(cw3, NFromInt(6))
  IN  NMul(g, NPow(NDiv(NAdd(N1, c6), NAdd(NPow(g, NFromInt(6)), c6)), NFromRat(1, 6)))
SAcw1(cb1, cb2, kappa, sigma) == NAdd(NDiv(cb1, NSq(kappa)), NDiv(NAdd(N1, cb2), sigma))

\* Favre-averaged SA transport of the working variable nu (conservative form), F the mean fields:
\*   (rho nu)_t + div(rho u nu) - production + destruction
\*        - (1/sigma) [ div((mu + rho nu) grad nu) + c_b2 rho |grad nu|^2 ]
FansNuResidual(F, nu, mu, sigma, cb2, production, destruction) ==
  LET rn == JMul(F.rho, nu)
      Conv(i) == JG(JMul(rn, F.u[i]), i)
      Diff(i) == JG(JMul(JAdd(mu, rn), JD(nu, i)), i)
      G2(i)   == NSq(JG(nu, i))
  IN  NSub(NAdd(NSub(NAdd(JG(rn, 4), Sum3(Conv)), production), destruction),
           NDiv(NAdd(Sum3(Diff), NMul(NMul(cb2, JV(F.rho)), Sum3(G2))), sigma))

\* The system the two viscous axisymmetric solutions of the pinned tree were actually derived from
\* (known finding C03): shear stress without dw/dr, no hoop-stress term.  Used only to pin the known
\* deviation down exactly, so that any *other* change to those evaluators is still detected.
VarTauRZ(F, R, mu) == JMul(mu, JD(F.u[1], 2))
VarAxiNSMomR(F, R, mu) == NSub(AxiMom(F, R, 1), AxiDiv(R, AxiTauRR(F, R, mu), VarTauRZ(F, R, mu)))
VarAxiNSMomZ(F, R, mu) == NSub(AxiMom(F, R, 2), AxiDiv(R, VarTauRZ(F, R, mu), AxiTauZZ(F, R, mu)))
VarAxiNSEnergy(F, R, gamma, mu, kappa, Temp) ==
  LET wr == JAdd(JMul(AxiTauRR(F, R, mu), F.u[1]), JMul(VarTauRZ(F, R, mu), F.u[2]))
      wz == JAdd(JMul(VarTauRZ(F, R, mu), F.u[1]), JMul(AxiTauZZ(F, R, mu), F.u[2]))
  IN  NSub(NSub(AxiEnergy(F, R, gamma), AxiDiv(R, wr, wz)),
           AxiDiv(R, JMul(kappa, JD(Temp, 1)), JMul(kappa, JD(Temp, 2))))
=============================================================================
