------------------------------- MODULE MC_Registry -------------------------------
(***************************************************************************************)
(* Bounded exhaustive instance of Masa.tla over an abstract catalogue:                 *)
(*   "sa"  two scalar parameters a, b; provides evaluator fA                           *)
(*   "sv"  one scalar parameter c and one vector parameter w; provides evaluator fV    *)
(*   "fx"  a self-test fixture with a failing init_var (parameters q, r; sets q to 1,  *)
(*         returns 2, corrupts its registration count: masa_test_function)            *)
(*   "fu"  a self-test fixture without parameters and an empty init_var (masa_uninit)  *)
(* and a small alphabet of handles, solution strings (one decorated spelling, one      *)
(* unknown), parameter names (one unknown), values (incl. the marker) and vectors.     *)
(* TLC enumerates every interleaving of every API action, including all misuse.        *)
(*                                                                                     *)
(* Every transition can be emitted as one JSON line (ACTION_CONSTRAINT EmitEdge) for   *)
(* the replay harness, which concretises the abstract names and drives the real        *)
(* library along walks that cover every transition; the resulting logs go back through *)
(* MasaTrace.                                                                          *)
(***************************************************************************************)
EXTENDS Naturals, Sequences, FiniteSets, TLC, Json, SequencesExt

CONSTANTS MCPrec, Handles, MCBuild, EmitEdges,
          EmitOneIn,      \* >= 1: emit a random 1 in EmitOneIn of the transitions (the largest instance is model-checked in
                          \* full, but only a sample of its transitions is replayed on the implementation)
          Lite,           \* TRUE: the reduced alphabet (one parameter per solution named, values v1 and the marker, vectors
                          \* of length 0..1) -- used for the multi-handle / two-precision instances of the quick tier
          TestDefaultOn   \* include masa_test_default (it always terminates the process: one more walk per state)

VARIABLES reg, sel, live, status, dflt, memo, act

MCCatalog == <<
  [name |-> "sa", codes |-> <<115, 97>>,  dim |-> 1, fixture |-> FALSE, pars |-> {"a", "b"}, vecs |-> {},
   caps |-> {<<"fA", "S">>}, fcaps |-> {}],
  [name |-> "sv", codes |-> <<115, 118>>, dim |-> 2, fixture |-> FALSE, pars |-> {"c"}, vecs |-> {"w"},
   caps |-> {<<"fV", "S">>}, fcaps |-> {}],
  [name |-> "fx", codes |-> <<102, 120>>, dim |-> 1, fixture |-> TRUE,  pars |-> {"q", "r"}, vecs |-> {},
   caps |-> {}, fcaps |-> {}, initp |-> [ret |-> 2, one |-> {"q"}, breaks |-> TRUE]],
  [name |-> "fu", codes |-> <<102, 117>>, dim |-> 1, fixture |-> TRUE,  pars |-> {}, vecs |-> {},
   caps |-> {}, fcaps |-> {}, initp |-> [ret |-> 0, one |-> {}, breaks |-> FALSE]] >>

\* solution strings: exact names, one decorated spelling of "sa" ("S- a"), one unknown name ("zz")
NameInputs == {<<115, 97>>, <<83, 45, 32, 97>>, <<115, 118>>, <<102, 120>>, <<102, 117>>, <<122, 122>>}
ParNames   == IF Lite THEN {"a", "c", "q", "zz"} ELSE {"a", "b", "c", "q", "zz"}     \* "zz": registered by nobody; the fixture's r is never named
VecNames   == {"w", "zz"}
Values     == IF Lite THEN {"v1", "mk"} ELSE {"v1", "v2", "mk"}             \* "mk" is the marker
VecValues  == IF Lite THEN {<<>>, <<"v1">>} ELSE {<<>>, <<"v1">>, <<"v1", "v2">>}
Evals      == {<<"fA", "S">>, <<"fV", "S">>, <<"fN", "S">>}   \* fN: provided by nobody
Points     == {"x1"}

MCMarker(p) == "mk"
MCSentinel(p) == <<"sentinel">>
MCNoSuchParam(p) == "minus20"
MCOne(p) == "one"
MCDispAccept(p, v, s) == s = "number"
MCInitDflt == [p \in MCPrec |-> [n \in {"sa", "sv", "fx", "fu"} |->
                 [par |-> [k \in (CASE n = "sa" -> {"a", "b"} [] n = "sv" -> {"c"} [] OTHER -> {}) |-> "v0"],
                  vec |-> [k \in (IF n = "sv" THEN {"w"} ELSE {}) |-> <<"v0">>]]]]
\* the value of a provided evaluator is an uninterpreted function of exactly what C10 lets it depend on
EvalTerm(p, sol, par, vec, fn, sig, args) == <<"val", p, sol, par, vec, fn, sig, args>>
MCArgsRegular(sol, fn, sig, args) == TRUE
MCEvalAccept(p, sol, par, vec, fn, sig, args, cb, ret) == ret = EvalTerm(p, sol, par, vec, fn, sig, args)

M == INSTANCE Masa WITH Prec <- MCPrec, Catalog <- MCCatalog, Build <- MCBuild,
                        Marker <- MCMarker, Sentinel <- MCSentinel, NoSuchParam <- MCNoSuchParam, One <- MCOne, DispAccept <- MCDispAccept,
                        InitDflt <- MCInitDflt, UseMemo <- FALSE, EvalAccept <- MCEvalAccept, ArgsRegular <- MCArgsRegular

vars == <<reg, sel, live, status, dflt, memo, act>>

\* candidate outcomes offered to the relational actions of Masa.tla
Ok(r)    == [end |-> "ret", tags |-> {}, ret |-> r]
Err(r)   == [end |-> "ret", tags |-> {"ERROR"}, ret |-> r]
Fat      == [end |-> M!FatalEnd, tags |-> {"FATAL"}]
Basic    == {Ok(0), Fat}
AllNames == {"a", "b", "c", "w", "q", "r"}

ListOutcome(p) ==
  [end |-> "ret", tags |-> {}, ret |-> 0,
   out |-> LET hs == SetToSeq(DOMAIN reg[p]) IN [i \in 1..Len(hs) |-> [h |-> hs[i], s |-> reg[p][hs[i]].sol]]]
PrintOutcome == [end |-> "ret", tags |-> {}, ret |-> 0, out |-> [i \in 1..Len(MCCatalog) |-> MCCatalog[i].name]]
DispPOutcome(p) ==
  IF sel[p] = "$none" THEN Fat ELSE
  [end |-> "ret", tags |-> {}, ret |-> 0,
   out |-> LET ks == SetToSeq(M!Pars(M!Target(p).sol)) IN
           [i \in 1..Len(ks) |-> [k |-> ks[i], v |-> IF M!ParVal(p, M!Target(p), ks[i]) = "mk" THEN "Uninitialized" ELSE "number"]]]
DispVOutcome(p) ==
  IF sel[p] = "$none" THEN Fat ELSE
  [end |-> "ret", tags |-> {}, ret |-> 0,
   out |-> LET ks == SetToSeq(M!Vecs(M!Target(p).sol)) IN
           [i \in 1..Len(ks) |-> [k |-> ks[i], n |-> Len(M!VecVal(p, M!Target(p), ks[i]))]]]
EvalOutcomes(p, fn, sig, args) ==
  {Fat, Err(<<"sentinel">>)} \cup
  (IF sel[p] = "$none" THEN {} ELSE
     LET inst == M!Target(p) IN
     {[end |-> "ret", tags |-> {}, fin |-> TRUE,
       ret |-> EvalTerm(p, inst.sol, [k \in DOMAIN inst.par |-> M!ParVal(p, inst, k)],
                        [k \in DOMAIN inst.vec |-> M!VecVal(p, inst, k)], fn, sig, args)]})

Next ==
  \E p \in MCPrec :
    \/ \E h \in Handles, cs \in NameInputs, o \in Basic : M!Init(p, "cxx", h, cs, o)
    \/ \E h \in Handles \cup {"nohandle"}, o \in Basic  : M!Select(p, "cxx", h, o)
    \/ M!List(p, "cxx", ListOutcome(p))
    \/ M!PrintId(p, "cxx", PrintOutcome)
    \/ \E o \in {Fat} \cup {[end |-> "ret", tags |-> {}, ret |-> 0, v |-> n] : n \in {"sa", "sv", "fx", "fu"}} : M!GetName(p, "cxx", o)
    \/ \E o \in {Fat} \cup {[end |-> "ret", tags |-> {}, ret |-> 0, v |-> d] : d \in {1, 2}} : M!GetDim(p, "cxx", o)
    \/ \E k \in ParNames, v \in Values, o \in {Fat, [end |-> "ret", tags |-> {}], [end |-> "ret", tags |-> {"ERROR"}]} :
          M!SetParam(p, "cxx", k, v, o)
    \/ \E k \in ParNames, o \in {Fat, Err("minus20")} \cup {Ok(v) : v \in Values \cup {"v0", "one"}} : M!GetParam(p, "cxx", k, o)
    \/ \E o \in Basic \cup {[end |-> "ret", tags |-> {"FATAL", "ERROR"}, ret |-> 2]} : M!InitParam(p, "cxx", o)
    \/ \E o \in Basic : M!Purge(p, "cxx", o)
    \/ \E r \in {0, 1}, w \in SUBSET AllNames :
          \/ M!Sanity(p, "cxx", [end |-> "ret", tags |-> IF r = 0 THEN {} ELSE {"WARNING"}, ret |-> r, warn |-> w])
    \/ M!Sanity(p, "cxx", Fat)
    \/ \E k \in VecNames, v \in VecValues, o \in {Fat, [end |-> "ret", tags |-> {}], [end |-> "ret", tags |-> {"ERROR"}]} :
          M!SetVec(p, "cxx", k, v, o)
    \/ \E k \in VecNames :
          \/ \E v \in VecValues \cup {<<"v0">>} : M!GetVec(p, "cxx", k, [end |-> "ret", tags |-> {}, ret |-> 0, n |-> Len(v), v |-> v])
          \/ \E o \in {Fat, [end |-> "ret", tags |-> {"ERROR"}, ret |-> 1, n |-> 3]} : M!GetVec(p, "cxx", k, o)
    \/ M!DisplayParam(p, "cxx", DispPOutcome(p))
    \/ M!DisplayVec(p, "cxx", DispVOutcome(p))
    \/ \E o \in Basic : M!TestPoly(p, "cxx", o)
    \/ M!Version(p, "cxx", [end |-> "ret", tags |-> {}, ret |-> 5101, ret2 |-> 0], 5101)
    \/ \E o \in {Fat, [end |-> "ret", tags |-> {}, ncb |-> 1]} : M!PassFunc(p, "cxx", o, TRUE)
    \/ TestDefaultOn /\ \E v \in {"v1", "mk"}, e \in {"exit0", "exit1"} : M!TestDefault(p, "cxx", v, v = "mk", [end |-> e, tags |-> {}])
    \/ \E e \in Evals, x \in Points : \E o \in EvalOutcomes(p, e[1], e[2], <<x>>) : M!Eval(p, "cxx", e[1], e[2], <<x>>, <<>>, o)

Spec == M!Init0 /\ [][Next]_vars

\* what distinguishes states: the library's state, not the history variables
View == <<reg, sel, live, status>>

\* one JSON line per transition, for the replay harness
EmitEdge ==
  \/ ~EmitEdges
  \/ EmitOneIn > 1 /\ RandomElement(1..EmitOneIn) # 1
  \/ PrintT(<<"EDGE", ToJson([from |-> [reg |-> reg, sel |-> sel, status |-> status],
                              act  |-> act',
                              to   |-> [reg |-> reg', sel |-> sel', status |-> status']])>>)

TypeOK ==
  /\ \A p \in MCPrec : sel[p] \in Handles \cup {"$none"} /\ DOMAIN reg[p] \subseteq Handles /\ live[p] \in 0..Cardinality(Handles)
  /\ status \in {"run", "exited"}
SelValid  == M!SelValid
HeapExact == M!HeapExact
RegSound  == M!RegSound
Isolation == M!Isolation
PrecIndependent == M!PrecIndependent
SelSticky == M!SelSticky
SelMoves  == M!SelMoves
EvalPure  == M!EvalPure
FatalIntact == M!FatalIntact
FatalOnlyIfMisuse == M!FatalOnlyIfMisuse
NoUseBeforeInit == M!NoUseBeforeInit
ReinitFresh == M!ReinitFresh
SetThenGet == M!SetThenGet
\* a terminated process takes no step: with the exit build "exited" states are deadlocks by design
=============================================================================
