------------------------------- MODULE MC_Names -------------------------------
(***************************************************************************************)
(* Bounded exhaustive enumeration of solution-string decorations (C13).                *)
(* For every base name in Bases: every way of inserting runs of separators ('-', ' ',  *)
(* run length <= MaxRun) into at most two gaps (leading and trailing gaps included),   *)
(* combined with a set of case masks; and negatives: one significant character         *)
(* inserted, deleted or substituted.  TLC checks the specification's own consistency   *)
(* (every decoration normalises to its base; the expected resolution of a negative is  *)
(* whatever Resolve says) and emits each string for the replay harness.                *)
(***************************************************************************************)
EXTENDS Naturals, Sequences, FiniteSets, TLC, Json, MasaNames

CONSTANTS Bases,      \* set of indices into the catalogue
          MaxRun,     \* maximal separator run length
          Emit

Cat == INSTANCE MasaCatalog
VARIABLE s

Seps == {45, 32}
Runs == UNION {[1..n -> Seps] : n \in 1..MaxRun}
Insert(cs, pos, run) == SubSeq(cs, 1, pos) \o run \o SubSeq(cs, pos + 1, Len(cs))
Upper(c) == IF c \in 97..122 THEN c - 32 ELSE c
\* case masks: none, all, first letter, alternating
Mask(cs, m) == [i \in 1..Len(cs) |->
                  CASE m = 0 -> cs[i] [] m = 1 -> Upper(cs[i])
                    [] m = 2 -> IF i = 1 THEN Upper(cs[i]) ELSE cs[i]
                    [] OTHER -> IF i % 2 = 0 THEN Upper(cs[i]) ELSE cs[i]]
Decorations(b) ==
  LET n == Len(b) IN
  {Mask(b, m) : m \in 0..3}
  \cup {Insert(Mask(b, m), p, r) : m \in 0..3, p \in 0..n, r \in Runs}
  \cup {Insert(Insert(Mask(b, m), q, r2), p, r1) : m \in {0, 3}, p \in 0..n, q \in 0..n, r1 \in Runs, r2 \in Runs}
\* negatives: a significant character ('_' '.' '0' 'x' and control characters) inserted; one deleted; one substituted
Junk == {95, 46, 9, 48, 120, 13, 10, 17, 28, 1}   \* _ . TAB 0 x CR LF DC1 FS SOH
Negatives(b) ==
  LET n == Len(b) IN
  {Insert(b, p, <<j>>) : p \in 0..n, j \in Junk}
  \cup {SubSeq(b, 1, p - 1) \o SubSeq(b, p + 1, n) : p \in 1..n}
  \cup {[b EXCEPT ![p[1]] = p[2]] : p \in {q \in (1..n) \X Junk : b[q[1]] # q[2]}}
  \cup {<<>>}

Names == {Cat!Catalog[i].codes : i \in 1..Len(Cat!Catalog)}
ResolvesTo(cs) == LET n == NormCodes(cs) IN IF n \in Names THEN n ELSE <<>>

Init == \E i \in Bases :
          LET b == Cat!Catalog[i].codes IN
          \/ \E d \in Decorations(b) : s = [base |-> b, str |-> d, kind |-> "decoration"]
          \/ \E d \in Negatives(b)   : s = [base |-> b, str |-> d, kind |-> "negative"]
Next == UNCHANGED s
Spec == Init /\ [][Next]_s

\* the specification is consistent: every decoration normalises to its base name
DecorationsResolve == s.kind = "decoration" => ResolvesTo(s.str) = s.base
\* a negative resolves to nothing, or (by coincidence) to some *other* catalogue name -- never to its base
NegativesDiffer == s.kind = "negative" => ResolvesTo(s.str) # s.base
EmitString == ~Emit \/ PrintT(<<"NAME", ToJson([str |-> s.str, expect |-> ResolvesTo(s.str), kind |-> s.kind])>>)
=============================================================================
