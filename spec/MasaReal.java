// Java implementation (TLC module override) of the operators declared in MasaReal.tla.
//
// TLC has 32-bit integers and no reals.  A "number" of the specification is a pair
//      (val, mag)   val: a real carried to 45 significant decimal digits (BigDecimal)
//                   mag: a magnitude (double): the sum of the absolute values of the terms the value was
//                        formed from, propagated through every operation (see MasaReal.tla)
// encoded as a tuple of nine 32-bit integers
//      << sign, exp10, l1, l2, l3, l4, l5, mhi, mlo >>      val = sign * (l1..l5 base 1e9) * 10^exp10
// sign = 9 marks a non-finite value (NaN/inf read from a log).
// Tuples of small integers are ordinary TLC values: they are garbage collected (strings are interned
// forever) and need no change to TLC.
//
// This file is the trusted numeric base of the oracle; MC_Oracle.tla cross-checks it against reference
// values and algebraic identities.

import java.math.BigDecimal;
import java.math.BigInteger;
import java.math.MathContext;
import java.math.RoundingMode;

import tlc2.value.impl.BoolValue;
import tlc2.value.impl.IntValue;
import tlc2.value.impl.StringValue;
import tlc2.value.impl.TupleValue;
import tlc2.value.impl.Value;

public class MasaReal {
  static final MathContext MC = new MathContext(45, RoundingMode.HALF_EVEN);     // stored precision
  static final MathContext WC = new MathContext(60, RoundingMode.HALF_EVEN);     // working precision
  static final BigInteger B9 = BigInteger.valueOf(1000000000L);
  static final BigDecimal TWO = BigDecimal.valueOf(2);
  static final BigDecimal PI = new BigDecimal("3.14159265358979323846264338327950288419716939937510582097494459230781640628620899");
  static final BigDecimal LN2 = new BigDecimal("0.693147180559945309417232121458176568075500134360255254120680009493393621969694716");

  static final class Num {
    final BigDecimal v; final double m; final boolean finite;
    boolean exact = false;   // an input as logged (a floating-point number both sides hold exactly), not a computed value
    Num(BigDecimal v, double m) { this.v = v; this.m = m; this.finite = true; }
    Num() { this.v = BigDecimal.ZERO; this.m = 0; this.finite = false; }
  }

  // ------------------------------------------------------------------ encoding
  static Num dec(Value x) {
    TupleValue t = (TupleValue) x.toTuple();
    Value[] e = t.elems;
    int s = ((IntValue) e[0]).val;
    if (s == 9) return new Num();
    boolean exact = s >= 2;          // signs 2, 3, 4 = exact input with sign -1, 0, 1
    if (exact) s -= 3;
    int ex = ((IntValue) e[1]).val;
    BigInteger M = BigInteger.ZERO;
    for (int i = 2; i < 7; i++) M = M.multiply(B9).add(BigInteger.valueOf(((IntValue) e[i]).val));
    if (s < 0) M = M.negate();
    long bits = (((long) ((IntValue) e[7]).val) << 32) | (((long) ((IntValue) e[8]).val) & 0xffffffffL);
    Num r = new Num(new BigDecimal(M, -ex), Double.longBitsToDouble(bits));
    r.exact = exact;
    return r;
  }

  static Value enc(BigDecimal v, double m) {
    v = v.round(MC);
    if (v.signum() != 0 && Math.abs((long) v.precision() - v.scale()) > 100000) return nonfinite();
    Value[] e = new Value[9];
    int s = v.signum();
    BigInteger M = v.unscaledValue().abs();
    int ex = -v.scale();
    if (s == 0) { M = BigInteger.ZERO; ex = 0; }
    // M has at most 45 digits -> 5 limbs
    int[] l = new int[5];
    for (int i = 4; i >= 0; i--) { BigInteger[] qr = M.divideAndRemainder(B9); l[i] = qr[1].intValue(); M = qr[0]; }
    if (M.signum() != 0) throw new RuntimeException("MasaReal: mantissa overflow");
    e[0] = IntValue.gen(s); e[1] = IntValue.gen(ex);
    for (int i = 0; i < 5; i++) e[2 + i] = IntValue.gen(l[i]);
    if (Double.isNaN(m) || Double.isInfinite(m)) m = Double.MAX_VALUE;
    long bits = Double.doubleToLongBits(Math.abs(m));
    e[7] = IntValue.gen((int) (bits >>> 32)); e[8] = IntValue.gen((int) bits);
    return new TupleValue(e);
  }
  static Value nonfinite() {
    Value[] e = new Value[9];
    e[0] = IntValue.gen(9);
    for (int i = 1; i < 9; i++) e[i] = IntValue.gen(0);
    return new TupleValue(e);
  }
  static Value leaf(BigDecimal v) { return enc(v, Math.abs(v.doubleValue())); }
  // an exact input: the sign field carries the flag
  static Value exactLeaf(BigDecimal v) {
    // (held to 45 digits: the difference of two floating-point numbers cancels at most 2^64, so the
    //  representation error stays below 1e-25 of the result, far under one unit roundoff)
    TupleValue t = (TupleValue) enc(v, Math.abs(v.doubleValue()));
    Value[] e = t.elems.clone();
    e[0] = IntValue.gen(((IntValue) e[0]).val + 3);
    return new TupleValue(e);
  }
  static double ad(BigDecimal v) { return Math.abs(v.doubleValue()); }

  // ------------------------------------------------------------------ parsing
  // C99 hexadecimal floats (%a, %La), decimal literals, "nan"/"inf"
  static BigDecimal parse(String s) {
    s = s.trim();
    String t = s.toLowerCase();
    if (t.contains("nan") || t.contains("inf")) return null;
    boolean neg = false;
    if (t.startsWith("-")) { neg = true; t = t.substring(1); } else if (t.startsWith("+")) t = t.substring(1);
    BigDecimal r;
    if (t.startsWith("0x")) {
      t = t.substring(2);
      int p = t.indexOf('p');
      String mant = p >= 0 ? t.substring(0, p) : t;
      int e2 = p >= 0 ? Integer.parseInt(t.substring(p + 1).replace("+", "")) : 0;
      int dot = mant.indexOf('.');
      String digits = dot >= 0 ? mant.substring(0, dot) + mant.substring(dot + 1) : mant;
      int frac = dot >= 0 ? mant.length() - dot - 1 : 0;
      BigInteger M = digits.isEmpty() ? BigInteger.ZERO : new BigInteger(digits, 16);
      int e = e2 - 4 * frac;
      r = new BigDecimal(M);
      if (e >= 0) r = r.multiply(new BigDecimal(BigInteger.ONE.shiftLeft(e)));
      else r = r.divide(new BigDecimal(BigInteger.ONE.shiftLeft(-e)), WC);     // exact up to 60 digits
    } else {
      r = new BigDecimal(t);
    }
    return neg ? r.negate() : r;
  }

  // ------------------------------------------------------------------ elementary functions (60 digits)
  static BigDecimal expBD(BigDecimal x) {
    if (x.signum() == 0) return BigDecimal.ONE;
    // x = k ln2 + r, |r| <= ln2/2 ; then halve r 8 times
    BigDecimal kd = x.divide(LN2, WC).setScale(0, RoundingMode.HALF_EVEN);
    int k = kd.intValueExact();
    BigDecimal r = x.subtract(kd.multiply(LN2, WC), WC);
    r = r.divide(BigDecimal.valueOf(256), WC);
    BigDecimal term = BigDecimal.ONE, sum = BigDecimal.ONE;
    for (int n = 1; n < 60; n++) {
      term = term.multiply(r, WC).divide(BigDecimal.valueOf(n), WC);
      sum = sum.add(term, WC);
      if (term.abs().compareTo(new BigDecimal("1e-65")) < 0) break;
    }
    for (int i = 0; i < 8; i++) sum = sum.multiply(sum, WC);
    if (k >= 0) return sum.multiply(new BigDecimal(BigInteger.ONE.shiftLeft(k)), WC);
    return sum.divide(new BigDecimal(BigInteger.ONE.shiftLeft(-k)), WC);
  }
  static BigDecimal logBD(BigDecimal x) {
    if (x.signum() <= 0) throw new RuntimeException("MasaReal: log of non-positive number");
    // x = m 2^k with m in [0.75, 1.5); log m = 2 atanh((m-1)/(m+1))
    int k = 0;
    BigDecimal m = x;
    BigDecimal hi = new BigDecimal("1.5"), lo = new BigDecimal("0.75");
    // coarse scaling by the binary exponent of the double approximation
    double d = x.doubleValue();
    if (d > 0 && !Double.isInfinite(d)) {
      k = Math.getExponent(d);
      if (k > 0) m = x.divide(new BigDecimal(BigInteger.ONE.shiftLeft(k)), WC);
      else if (k < 0) m = x.multiply(new BigDecimal(BigInteger.ONE.shiftLeft(-k)), WC);
    }
    while (m.compareTo(hi) >= 0) { m = m.divide(TWO, WC); k++; }
    while (m.compareTo(lo) < 0) { m = m.multiply(TWO, WC); k--; }
    BigDecimal y = m.subtract(BigDecimal.ONE).divide(m.add(BigDecimal.ONE), WC);
    BigDecimal y2 = y.multiply(y, WC), term = y, sum = y;
    for (int n = 3; n < 400; n += 2) {
      term = term.multiply(y2, WC);
      BigDecimal t = term.divide(BigDecimal.valueOf(n), WC);
      sum = sum.add(t, WC);
      if (t.abs().compareTo(new BigDecimal("1e-65")) < 0) break;
    }
    return sum.multiply(TWO, WC).add(LN2.multiply(BigDecimal.valueOf(k), WC), WC);
  }
  // returns {sin x, cos x}
  static BigDecimal[] sincosBD(BigDecimal x) {
    BigDecimal twopi = PI.multiply(TWO);
    BigDecimal kd = x.divide(twopi, WC).setScale(0, RoundingMode.HALF_EVEN);
    BigDecimal r = x.subtract(kd.multiply(twopi, WC), WC);            // |r| <= pi
    // halve 6 times, Taylor, then double-angle 6 times
    r = r.divide(BigDecimal.valueOf(64), WC);
    BigDecimal r2 = r.multiply(r, WC);
    BigDecimal s = r, c = BigDecimal.ONE, ts = r, tc = BigDecimal.ONE;
    for (int n = 1; n < 40; n++) {
      tc = tc.multiply(r2, WC).divide(BigDecimal.valueOf((2L * n - 1) * (2L * n)), WC).negate();
      ts = ts.multiply(r2, WC).divide(BigDecimal.valueOf((2L * n) * (2L * n + 1)), WC).negate();
      c = c.add(tc, WC); s = s.add(ts, WC);
      if (tc.abs().compareTo(new BigDecimal("1e-66")) < 0 && ts.abs().compareTo(new BigDecimal("1e-66")) < 0) break;
    }
    for (int i = 0; i < 6; i++) {
      BigDecimal s2 = s.multiply(c, WC).multiply(TWO, WC);
      BigDecimal c2 = c.multiply(c, WC).subtract(s.multiply(s, WC), WC);
      s = s2; c = c2;
    }
    return new BigDecimal[] { s, c };
  }
  // erf z = 2/sqrt(pi) e^(-z^2) sum_n 2^n z^(2n+1) / (2n+1)!!   (all terms of one sign: no cancellation); |z| > 13: +-1 to 70 digits
  static BigDecimal erfBD(BigDecimal z) {
    if (z.signum() == 0) return BigDecimal.ZERO;
    if (z.abs().compareTo(BigDecimal.valueOf(13)) > 0) return BigDecimal.valueOf(z.signum());
    MathContext XC = new MathContext(80, RoundingMode.HALF_EVEN);
    BigDecimal z2 = z.multiply(z, XC), term = z, sum = z;
    for (int n = 1; n < 4000; n++) {
      term = term.multiply(z2, XC).multiply(TWO, XC).divide(BigDecimal.valueOf(2L * n + 1), XC);
      sum = sum.add(term, XC);
      if (term.abs().compareTo(sum.abs().movePointLeft(75)) < 0) break;
    }
    return sum.multiply(expBD(z2.negate()), WC).multiply(TWO, WC).divide(PI.sqrt(XC), WC);
  }
  static BigDecimal powBD(BigDecimal a, BigDecimal b) {
    if (b.signum() == 0) return BigDecimal.ONE;
    // integer exponents: repeated multiplication (any base)
    if (b.stripTrailingZeros().scale() <= 0 && b.abs().compareTo(BigDecimal.valueOf(4096)) <= 0) {
      int n = b.intValueExact();
      BigDecimal r = BigDecimal.ONE, base = a; int k = Math.abs(n);
      while (k > 0) { if ((k & 1) == 1) r = r.multiply(base, WC); base = base.multiply(base, WC); k >>= 1; }
      return n >= 0 ? r : BigDecimal.ONE.divide(r, WC);
    }
    if (a.signum() <= 0) {
      if (a.signum() == 0 && b.signum() > 0) return BigDecimal.ZERO;
      throw new RuntimeException("MasaReal: non-integer power of a non-positive base " + a + "^" + b);
    }
    return expBD(b.multiply(logBD(a), WC));
  }

  // ------------------------------------------------------------------ the operators of MasaReal.tla
  public static Value NFromStr(final Value s) {
    BigDecimal v = parse(((StringValue) s).val.toString());
    return v == null ? nonfinite() : exactLeaf(v);
  }
  public static Value NFromInt(final Value i) { return leaf(BigDecimal.valueOf(((IntValue) i).val)); }
  public static Value NFromRat(final Value p, final Value q) {
    return leaf(BigDecimal.valueOf(((IntValue) p).val).divide(BigDecimal.valueOf(((IntValue) q).val), WC));
  }
  public static Value NPi() { return leaf(PI); }
  public static Value NIsFinite(final Value a) { return dec(a).finite ? BoolValue.ValTrue : BoolValue.ValFalse; }

  // The arithmetic is total: a non-finite operand, or an argument outside the domain of the operation (division
  // by zero, log or root of a negative number), gives the non-finite number, which propagates; the oracle does
  // not judge an evaluation whose expected value is non-finite (inadmissible input).
  static boolean bad(Num... xs) { for (Num x : xs) if (!x.finite) return true; return false; }
  // sum/difference of two exact inputs: one correctly rounded operation, error u |result| however much cancels
  public static Value NAdd(final Value a, final Value b) { Num x = dec(a), y = dec(b); if (bad(x, y)) return nonfinite(); BigDecimal r = x.v.add(y.v, WC); return enc(r, x.exact && y.exact ? ad(r) : x.m + y.m); }
  public static Value NSub(final Value a, final Value b) { Num x = dec(a), y = dec(b); if (bad(x, y)) return nonfinite(); BigDecimal r = x.v.subtract(y.v, WC); return enc(r, x.exact && y.exact ? ad(r) : x.m + y.m); }
  public static Value NMul(final Value a, final Value b) { Num x = dec(a), y = dec(b); if (bad(x, y)) return nonfinite(); return enc(x.v.multiply(y.v, WC), ad(x.v) * y.m + ad(y.v) * x.m - ad(x.v) * ad(y.v)); }
  public static Value NNeg(final Value a) { Num x = dec(a); if (bad(x)) return nonfinite(); return enc(x.v.negate(), x.m); }
  public static Value NDiv(final Value a, final Value b) {
    Num x = dec(a), y = dec(b);
    if (bad(x, y) || y.v.signum() == 0) return nonfinite();
    double ay = ad(y.v);
    // first order: |a/b| (r_a + r_b - 1) with r = mag/|val|
    return enc(x.v.divide(y.v, WC), x.m / ay + ad(x.v) * y.m / (ay * ay) - ad(x.v) / ay);
  }
  // leaf functions: value of an elementary function at a.val, magnitude = |value|
  static boolean huge(Num x) { return x.v.abs().compareTo(new BigDecimal("1e6")) > 0; }
  public static Value NSinL(final Value a) { Num x = dec(a); if (bad(x) || huge(x)) return nonfinite(); return leaf(sincosBD(x.v)[0]); }
  public static Value NCosL(final Value a) { Num x = dec(a); if (bad(x) || huge(x)) return nonfinite(); return leaf(sincosBD(x.v)[1]); }
  public static Value NExpL(final Value a) { Num x = dec(a); if (bad(x) || huge(x)) return nonfinite(); return leaf(expBD(x.v)); }
  public static Value NErfL(final Value a) { Num x = dec(a); if (bad(x)) return nonfinite(); return leaf(erfBD(x.v)); }
  public static Value NLogL(final Value a) { Num x = dec(a); if (bad(x) || x.v.signum() <= 0) return nonfinite(); return leaf(logBD(x.v)); }
  public static Value NSqrtL(final Value a) { Num x = dec(a); if (bad(x) || x.v.signum() < 0) return nonfinite(); return leaf(x.v.sqrt(WC)); }
  public static Value NPowL(final Value a, final Value b) {
    Num x = dec(a), y = dec(b);
    if (bad(x, y)) return nonfinite();
    try { BigDecimal r = powBD(x.v, y.v); if (r.abs().compareTo(new BigDecimal("1e3000")) > 0) return nonfinite(); return leaf(r); }
    catch (RuntimeException e) { return nonfinite(); }
  }
  public static Value NAbsL(final Value a) { Num x = dec(a); if (bad(x)) return nonfinite(); return leaf(x.v.abs()); }
  public static Value NAbs(final Value a) { Num x = dec(a); if (bad(x)) return nonfinite(); return enc(x.v.abs(), x.m); }
  // asin on (-1, 1): Newton iteration on sin from the double approximation
  public static Value NAsinL(final Value a) {
    Num ya = dec(a);
    if (bad(ya) || ya.v.abs().compareTo(BigDecimal.ONE) >= 0) return nonfinite();
    BigDecimal y = ya.v;
    BigDecimal x = new BigDecimal(Math.asin(y.doubleValue()));
    for (int i = 0; i < 6; i++) {
      BigDecimal[] sc = sincosBD(x);
      x = x.subtract(sc[0].subtract(y, WC).divide(sc[1], WC), WC);
    }
    return leaf(x);
  }
  public static Value NLeaf(final Value a) { Num x = dec(a); if (bad(x)) return nonfinite(); return leaf(x.v); }
  // value f0 = f(a) with first derivative f1 = f'(a): magnitude |f0| + |f1| mag(a)
  public static Value NFun(final Value f0, final Value f1, final Value a) {
    Num v = dec(f0), d = dec(f1), x = dec(a);
    if (bad(v, d, x)) return nonfinite();
    return enc(v.v, ad(v.v) + ad(d.v) * x.m);
  }
  public static Value NLt(final Value a, final Value b) { Num x = dec(a), y = dec(b); return !bad(x, y) && x.v.compareTo(y.v) < 0 ? BoolValue.ValTrue : BoolValue.ValFalse; }
  public static Value NLe(final Value a, final Value b) { Num x = dec(a), y = dec(b); return !bad(x, y) && x.v.compareTo(y.v) <= 0 ? BoolValue.ValTrue : BoolValue.ValFalse; }
  public static Value NSign(final Value a) { Num x = dec(a); return IntValue.gen(bad(x) ? 0 : x.v.signum()); }

  static double unit(String p) { return p.equals("ld") ? Math.pow(2, -64) : Math.pow(2, -53); }
  // |got - exp.val| <= 2^k * u_p * exp.mag
  // the underflow floor: below the smallest normal DOUBLE (2^-1022) the relative error model does not hold in double -- a term
  // of size 1e-400 IS 0 there, correctly -- and in either precision the running magnitude of this oracle (a Java double)
  // cannot be carried: a long double result of size 1e-1547 has no representable scale.  An absolute error of 2^k smallest
  // normal doubles is therefore always within the tolerance, for both scalar types (for long double this leaves results
  // below 1e-306 practically unjudged: a limit of the oracle, DESIGN.md section 12).
  static final BigDecimal MIN_D = new BigDecimal(Double.MIN_NORMAL);
  static BigDecimal tolBD(double tol, int k, String p) {
    BigDecimal fl = MIN_D.multiply(new BigDecimal(BigInteger.ONE.shiftLeft(Math.max(k, 0))), WC);
    BigDecimal t = new BigDecimal(tol);
    return t.compareTo(fl) < 0 ? fl : t;
  }
  public static Value NClose(final Value got, final Value exp, final Value k, final Value p) {
    Num g = dec(got), e = dec(exp);
    if (!g.finite || !e.finite) return BoolValue.ValFalse;
    double tol = Math.pow(2, ((IntValue) k).val) * unit(((StringValue) p).val.toString()) * e.m;
    BigDecimal diff = g.v.subtract(e.v, WC).abs();
    return diff.compareTo(tolBD(tol, ((IntValue) k).val, ((StringValue) p).val.toString())) <= 0 ? BoolValue.ValTrue : BoolValue.ValFalse;
  }
  // |a - b| <= 2^k * u_p * mag(scale)
  public static Value NCloseTo(final Value a, final Value b, final Value scale, final Value k, final Value p) {
    Num x = dec(a), y = dec(b), s = dec(scale);
    if (!x.finite || !y.finite || !s.finite) return BoolValue.ValFalse;
    double tol = Math.pow(2, ((IntValue) k).val) * unit(((StringValue) p).val.toString()) * s.m;
    return x.v.subtract(y.v, WC).abs().compareTo(tolBD(tol, ((IntValue) k).val, ((StringValue) p).val.toString())) <= 0 ? BoolValue.ValTrue : BoolValue.ValFalse;
  }
  // ceil(log2(|got - exp.val| / (u_p * exp.mag))), -99 if the difference is zero, 999 if mag is zero but diff not
  public static Value NErrBits(final Value got, final Value exp, final Value p) {
    Num g = dec(got), e = dec(exp);
    if (!g.finite || !e.finite) return IntValue.gen(999);
    double diff = g.v.subtract(e.v, WC).abs().doubleValue();
    if (diff == 0) return IntValue.gen(-99);
    double den = unit(((StringValue) p).val.toString()) * e.m;
    if (den == 0) return IntValue.gen(999);
    return IntValue.gen((int) Math.ceil(Math.log(diff / den) / Math.log(2)));
  }
  public static Value NToStr(final Value a) {
    Num x = dec(a);
    if (!x.finite) return new StringValue("nonfinite");
    return new StringValue(x.v.round(new MathContext(25)).toString() + " (mag " + x.m + ")");
  }
}
