--------------------------- MODULE MasaRegistryInd ---------------------------
(***************************************************************************************)
(* The registry core of Masa.tla (one precision), typed for Apalache, with an          *)
(* INDUCTIVE invariant: SelValid, HeapExact and RegSound hold for ANY number of         *)
(* handles and ANY history, not only for the two or three handles TLC enumerates.       *)
(*                                                                                      *)
(*   apalache-mc check --init=IndInit --inv=IndInv --length=1 MasaRegistryInd.tla       *)
(*        (IndInv /\ Next => IndInv')                                                   *)
(*   apalache-mc check --init=Init --inv=IndInv --length=0 MasaRegistryInd.tla          *)
(*        (Init => IndInv)                                                              *)
(*                                                                                      *)
(* The actions are those of Masa.tla that touch reg / sel / live / status: Init (known  *)
(* and unknown solution name), Select (known and unknown handle), and the calls that    *)
(* need a selection (one representative: a parameter write).  Handles and solution      *)
(* names are uninterpreted; parameter stores are abstracted to a set of written names.  *)
(***************************************************************************************)
EXTENDS Integers, FiniteSets

CONSTANTS
  \* @type: Set(Str);
  Handles,        \* any finite set of handle strings
  \* @type: Set(Str);
  Solutions,      \* catalogue names
  \* @type: Set(Str);
  Names,          \* solution strings a caller may pass (Solutions and others)
  \* @type: Bool;
  Exc             \* exception build: a fatal error throws and the process goes on

VARIABLES
  \* @type: Set(Str);
  regd,           \* registered handles (DOMAIN reg[p])
  \* @type: Str -> Str;
  sol,            \* handle -> solution of its instance (meaningful on regd)
  \* @type: Str;
  sel,            \* selected handle, or "$none"
  \* @type: Int;
  live,           \* solution objects alive
  \* @type: Bool;
  running         \* status = "run"

None == "$none"

Init ==
  /\ regd = {}
  /\ sol = [h \in Handles |-> None]
  /\ sel = None
  /\ live = 0
  /\ running = TRUE

Fatal ==
  /\ running' = Exc
  /\ UNCHANGED <<regd, sol, sel, live>>

\* masa_init(h, n)
DoInit(h, n) ==
  /\ running
  /\ IF n \in Solutions
     THEN /\ regd' = regd \union {h}
          /\ sol' = [sol EXCEPT ![h] = n]
          /\ sel' = h
          /\ live' = Cardinality(regd \union {h})
          /\ UNCHANGED running
     ELSE Fatal

\* masa_select_mms(h)
DoSelect(h) ==
  /\ running
  /\ IF h \in regd
     THEN sel' = h /\ UNCHANGED <<regd, sol, live, running>>
     ELSE Fatal

\* any call that needs a selected solution (its effect on the parameter store is not modelled here)
DoUse ==
  /\ running
  /\ IF sel # None THEN UNCHANGED <<regd, sol, sel, live, running>> ELSE Fatal

Next ==
  \/ \E h \in Handles, n \in Names : DoInit(h, n)
  \/ \E h \in Handles \union {"$unknown"} : DoSelect(h)
  \/ DoUse

\* the invariants of Masa.tla
SelValid  == sel = None \/ sel \in regd
HeapExact == live = Cardinality(regd)
RegSound  == \A h \in regd : sol[h] \in Solutions

TypeOK ==
  /\ regd \subseteq Handles
  /\ sol \in [Handles -> Solutions \union {None}]
  /\ sel \in Handles \union {None}
  /\ live \in 0..Cardinality(Handles)
  /\ running \in BOOLEAN

IndInv == TypeOK /\ SelValid /\ HeapExact /\ RegSound
\* an arbitrary state satisfying the invariant (the induction hypothesis)
IndInit ==
  /\ regd \in SUBSET Handles
  /\ sol \in [Handles -> Solutions \union {None}]
  /\ sel \in Handles \union {None}
  /\ live \in 0..Cardinality(Handles)
  /\ running \in BOOLEAN
  /\ SelValid /\ HeapExact /\ RegSound

\* constants for the run: sets of uninterpreted strings of a size TLC could not enumerate with histories
ConstInit ==
  /\ Handles = {"h1", "h2", "h3", "h4", "h5", "h6", "h7", "h8"}
  /\ Solutions = {"s1", "s2", "s3", "s4", "s5"}
  /\ Names = {"s1", "s2", "s3", "s4", "s5", "zz", "yy"}
  /\ Exc \in BOOLEAN
=============================================================================
