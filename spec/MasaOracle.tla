------------------------------- MODULE MasaOracle -------------------------------
(***************************************************************************************)
(* The value oracle: what a provided evaluator must return, as a function of the       *)
(* abstract state (current parameters, vectors) and the arguments of the call.         *)
(*   field definitions  -- the documented manufactured fields, as jets                 *)
(*   governing operator -- MasaPDE, applied to those jets                               *)
(* Source terms are never transcribed from MASA: they are always derived.              *)
(*                                                                                     *)
(* par: [name -> hex-float string], args = <<scalars, direction index, #index args>>,  *)
(* cb = <<>> or <<kind, c0, c1, c2>> (the caller-supplied function, by name).          *)
(***************************************************************************************)
EXTENDS MasaPDE, MasaClosed, Json, IOUtils

Has(par, k) == k \in DOMAIN par
PN(par, k)  == NFromStr(par[k])
P0(par, k)  == IF Has(par, k) THEN NFromStr(par[k]) ELSE N0

\* ------------------------------------------------------------------ coordinates
\* scalar arguments: the spatial coordinates in order, then t when there is one more than `nsp`
\* coordinates that are not arguments are the constant 0 (they cannot occur in the fields)
Coords(a, nsp) ==
  LET n == Len(a)
      sp(i) == IF i <= n /\ i <= nsp THEN JVar(i, NFromStr(a[i])) ELSE JConst(N0)
  IN  [x |-> sp(1), y |-> sp(2), z |-> sp(3),
       t |-> IF n > nsp THEN JVar(4, NFromStr(a[n])) ELSE JConst(N0)]

\* ------------------------------------------------------------------ Roy-type fields
\* phi = phi_0 + sum_c phi_c trig_c(a_phic pi c / L)   (a term is present iff its amplitude is a parameter)
Trig(kind, a) == IF kind = "sin" THEN JSin(a) ELSE JCos(a)
RoyTerm(par, f, c, kind, V, L) ==
  IF Has(par, f \o "_" \o c)
  THEN JScale(PN(par, f \o "_" \o c), Trig(kind, JScale(NDiv(NMul(PN(par, "a_" \o f \o c), NPi), L), V)))
  ELSE JConst(N0)
RoyField(par, f, kx, ky, kz, kt, C) ==
  LET L == PN(par, "L") IN
  JAdd(JAdd(JConst(P0(par, f \o "_0")), JAdd(RoyTerm(par, f, "x", kx, C.x, L), RoyTerm(par, f, "y", ky, C.y, L))),
       JAdd(RoyTerm(par, f, "z", kz, C.z, L), RoyTerm(par, f, "t", kt, C.t, L)))
\* euler.page / cns.page (Roy et al.): which trigonometric function goes with which coordinate
Rho(par, C) == RoyField(par, "rho", "sin", "cos", "sin", "sin", C)
UU(par, C)  == RoyField(par, "u",   "sin", "cos", "cos", "cos", C)
VV(par, C)  == RoyField(par, "v",   "cos", "sin", "sin", "sin", C)
WW(par, C)  == RoyField(par, "w",   "sin", "sin", "cos", "cos", C)
PP(par, C)  == RoyField(par, "p",   "cos", "sin", "cos", "cos", C)
CartFields(par, C) == [rho |-> Rho(par, C), u |-> <<UU(par, C), VV(par, C), WW(par, C)>>, p |-> PP(par, C)]

Undefined == <<>>
NotANumber == <<"nan">>      \* the documented error value of the power-law gradients
\* which equation a source-term name denotes: index 0 mass, 1..3 momentum, 4 energy
EqOf(fn) == CASE fn = "source_rho" -> 0
              [] fn \in {"source_rho_u", "source_u"} -> 1
              [] fn \in {"source_rho_v", "source_v"} -> 2
              [] fn \in {"source_rho_w", "source_w"} -> 3
              [] fn \in {"source_rho_e", "source_e"} -> 4
              [] OTHER -> 9
FieldOf(F, fn) == CASE fn = "exact_rho" -> F.rho [] fn = "exact_u" -> F.u[1] [] fn = "exact_v" -> F.u[2]
                    [] fn = "exact_w" -> F.u[3] [] fn = "exact_p" -> F.p
GradFieldOf(F, fn) == CASE fn = "grad_rho" -> F.rho [] fn = "grad_u" -> F.u[1] [] fn = "grad_v" -> F.u[2]
                        [] fn = "grad_w" -> F.u[3] [] fn = "grad_p" -> F.p

\* the expected value: a number, or Undefined when the oracle does not cover this evaluator

\* ------------------------------------------------------------------ heat (heat.page eq. manufactured01)
HeatArg(par, ks, S, kt, T) == JAdd(JScale(P0(par, ks), S), JScale(P0(par, kt), T))
HeatT(par, C) ==
  JMul(JMul(JCos(HeatArg(par, "A_x", C.x, "A_t", C.t)), JCos(HeatArg(par, "B_y", C.y, "B_t", C.t))),
       JMul(JCos(HeatArg(par, "C_z", C.z, "C_t", C.t)), JCos(JScale(P0(par, "D_t"), C.t))))
HeatSource(par, C) ==
  LET T  == HeatT(par, C)
      K  == JPoly(<<P0(par, "k_0"), P0(par, "k_1"), P0(par, "k_2")>>, T)
      CP == JPoly(<<P0(par, "cp_0"), P0(par, "cp_1"), P0(par, "cp_2")>>, T)
  IN  HeatResidual(P0(par, "rho"), CP, K, T)

\* ------------------------------------------------------------------ axisymmetric fields (r = x, z = y)
AxiTerm(par, amp, freq, kind, V) ==
  JScale(PN(par, amp), Trig(kind, JScale(NDiv(NMul(PN(par, freq), NPi), PN(par, "L")), V)))
AxiFields(sol, par, C) ==
  LET one == JConst(N1)
      cosr(f) == Trig("cos", JScale(NDiv(NMul(PN(par, f), NPi), PN(par, "L")), C.x))
  IN
  IF sol = "axisymmetric_navierstokes_compressible" THEN
    [rho |-> JAdd(JConst(PN(par, "rho_0")), JMul(AxiTerm(par, "rho_1", "a_rhor", "cos", C.x), Trig("sin", JScale(NDiv(NMul(PN(par, "a_rhoz"), NPi), PN(par, "L")), C.y)))),
     p   |-> JAdd(JConst(PN(par, "p_0")), JMul(AxiTerm(par, "p_1", "a_pr", "sin", C.x), Trig("cos", JScale(NDiv(NMul(PN(par, "a_pz"), NPi), PN(par, "L")), C.y)))),
     u   |-> <<JMul(JScale(PN(par, "u_1"), JSub(cosr("a_ur"), one)), Trig("sin", JScale(NDiv(NMul(PN(par, "a_uz"), NPi), PN(par, "L")), C.y))),
               JAdd(JConst(PN(par, "w_0")), JMul(AxiTerm(par, "w_1", "a_wr", "cos", C.x), Trig("sin", JScale(NDiv(NMul(PN(par, "a_wz"), NPi), PN(par, "L")), C.y)))),
               JConst(N0)>>]
  ELSE
    LET tt(amp, freq, kind) == IF Has(par, amp) THEN AxiTerm(par, amp, freq, kind, C.t) ELSE JConst(N0) IN
    [rho |-> JAdd(JAdd(JConst(PN(par, "rho_0")), AxiTerm(par, "rho_r", "a_rhor", "cos", C.x)),
                  JAdd(AxiTerm(par, "rho_z", "a_rhoz", "sin", C.y), tt("rho_t", "a_rhot", "sin"))),
     p   |-> JAdd(JAdd(JConst(PN(par, "p_0")), AxiTerm(par, "p_r", "a_pr", "sin", C.x)),
                  JAdd(AxiTerm(par, "p_z", "a_pz", "cos", C.y), tt("p_t", "a_pt", "cos"))),
     u   |-> <<JMul(JScale(PN(par, "u_r"), JSub(cosr("a_ur"), one)),
                    IF Has(par, "u_t") THEN JAdd(AxiTerm(par, "u_z", "a_uz", "sin", C.y), tt("u_t", "a_ut", "cos"))
                    ELSE AxiTerm(par, "u_z", "a_uz", "sin", C.y)),
               JAdd(JAdd(JConst(PN(par, "w_0")), AxiTerm(par, "w_r", "a_wr", "cos", C.x)),
                    JAdd(AxiTerm(par, "w_z", "a_wz", "sin", C.y), tt("w_t", "a_wt", "cos"))),
               JConst(N0)>>]

\* ------------------------------------------------------------------ Laplace, Burgers (laplace.page, burgers.page)
LaplacePhi(par, C) ==
  LET Lx == JConst(PN(par, "Lx")) Ly == JConst(PN(par, "Ly"))
  IN  JAdd(JMul(JSq(JSub(Ly, C.y)), JSq(JAdd(Ly, C.y))), JMul(JSq(JSub(Lx, C.x)), JSq(JAdd(Lx, C.x))))
\* burgers.page eq. manufactured_2d_trans; the two-argument exact fields are the t-independent part
BurgersUF(par, C, withT) ==
  LET s == RoyField([k \in DOMAIN par \ {"u_t"} |-> par[k]], "u", "sin", "cos", "cos", "cos", C)
  IN  IF withT THEN JAdd(s, RoyTerm(par, "u", "t", "cos", C.t, PN(par, "L"))) ELSE s
BurgersVF(par, C, withT) ==
  LET s == RoyField([k \in DOMAIN par \ {"v_t"} |-> par[k]], "v", "cos", "sin", "sin", "sin", C)
  IN  IF withT THEN JAdd(s, RoyTerm(par, "v", "t", "sin", C.t, PN(par, "L"))) ELSE s

\* ------------------------------------------------------------------ power-law solution (nsctpl_fwd.hpp)
\* one term a cos(b 2 pi s / L + c): b, c, L numbers; S the coordinate jet
PLCos(b, c, L, S) == JCos(JAdd(JScale(NDiv(NMul(b, NMul(N2, NPi)), L), S), JConst(c)))
PLField(par, f, C) ==
  LET q(pre, suf) == PN(par, pre \o f \o suf)
      Lx == PN(par, "Lx") Ly == PN(par, "Ly") Lz == PN(par, "Lz")
      tm(suf) == JCos(JAdd(JScale(q("f_", suf), C.t), JConst(q("g_", suf))))
      one(suf, L, S) == JScale(q("a_", suf), JMul(PLCos(q("b_", suf), q("c_", suf), L, S), tm(suf)))
      two(suf, L1, S1, L2, S2) ==
         JScale(q("a_", suf), JMul(JMul(PLCos(q("b_", suf), q("c_", suf), L1, S1), PLCos(q("d_", suf), q("e_", suf), L2, S2)), tm(suf)))
  IN  JAdd(JAdd(JAdd(JScale(q("a_", "0"), tm("0")), one("x", Lx, C.x)),
                JAdd(two("xy", Lx, C.x, Ly, C.y), two("xz", Lx, C.x, Lz, C.z))),
           JAdd(JAdd(one("y", Ly, C.y), two("yz", Ly, C.y, Lz, C.z)), one("z", Lz, C.z)))

\* ------------------------------------------------------------------ Spalart-Allmaras solutions (C05)
\* rans_sa: fully developed channel, wall units; eta = variable 1.  Fields as constructed by the class:
\* u = a1 eta (1 - eta/2), nu_sa = b1 eta - (etam+1) b1 eta^2/(2 etam) + b1 eta^3/(3 etam), a1 = 2, b1 = 1, etam = 3/5
RansU(E)  == JScale(N2, JMul(E, JSub(JConst(N1), JScale(Half, E))))
RansNu(E) == LET etam == NFromRat(3, 5) IN
  JAdd(JSub(E, JScale(NDiv(NAdd(etam, N1), NMul(N2, etam)), JSq(E))), JScale(NDiv(N1, NMul(NFromInt(3), etam)), JMul(E, JSq(E))))
RansSA(par, fn, E) ==
  LET u == RansU(E)  nu == RansNu(E)
      re == PN(par, "re_tau")  kap == PN(par, "kappa")  sig == PN(par, "sigma")
      cb1 == PN(par, "cb1") cb2 == PN(par, "cb2")
      visc == NDiv(N1, re)
      chi == JScale(re, nu)
      fv1 == SAfv1(chi, PN(par, "cv1"))
      nut == JMul(nu, fv1)
      eta == JV(E)
      d2  == NMul(NSq(kap), NSq(eta))
      Omega == JG(u, 1)
      Sbar == NDiv(NMul(JV(nu), SAfv2N(JV(chi), JV(fv1))), d2)
      St  == SAStilde(Omega, Sbar, PN(par, "cv2"), PN(par, "cv3"))
      r0  == NDiv(JV(nu), NMul(St, d2))
      r   == IF NLt(NFromInt(10), r0) THEN NFromInt(10) ELSE r0
      prod == NMul(cb1, NMul(St, JV(nu)))
      dest == NMul(NMul(SAcw1(cb1, cb2, kap, sig), SAfw(r, PN(par, "cw2"), PN(par, "cw3"))), NSq(NDiv(JV(nu), eta)))
      trans == NDiv(NAdd(JG(JMul(JAdd(JConst(visc), nu), JD(nu, 1)), 1), NMul(cb2, NSq(JG(nu, 1)))), sig)
  IN  CASE fn = "exact_u" -> JV(u) [] fn = "exact_v" -> JV(nu)
        \* d/deta [ (1/Re_tau + nu_t) du/deta ] + 1
        [] fn = "source_u" -> NAdd(JG(JMul(JAdd(JConst(visc), nut), JD(u, 1)), 1), N1)
        [] fn = "source_v" -> NAdd(NSub(prod, dest), trans)
        [] OTHER -> Undefined

\* fans_sa_transient_free_shear: Roy fields plus nu_sa = nu_sa_0 + nu_sa_x cos + nu_sa_y cos + nu_sa_t cos
FreeShearNu(par, C) ==
  LET L == PN(par, "L")
      tm(amp, fr, V) == JScale(PN(par, amp), JCos(JScale(NDiv(NMul(PN(par, fr), NPi), L), V)))
  IN  JAdd(JAdd(JConst(PN(par, "nu_sa_0")), tm("nu_sa_x", "a_nusax", C.x)), JAdd(tm("nu_sa_y", "a_nusay", C.y), tm("nu_sa_t", "a_nusat", C.t)))
\* effective transport coefficients of the Favre-averaged equations closed with SA
\* frozen: treat f_v1 as a constant when differentiating the eddy viscosity (the recorded variant of the
\* known finding on the free-shear momentum/energy sources; the property demands frozen = FALSE)
FansClosure(par, F, nu, frozen) ==
  LET mu  == JConst(PN(par, "mu"))
      rn  == JMul(F.rho, nu)
      fv1 == SAfv1(JDiv(rn, mu), PN(par, "c_v1"))
      mut == JMul(rn, IF frozen THEN JConst(JV(fv1)) ELSE fv1)
      cp  == NDiv(NMul(PN(par, "Gamma"), PN(par, "R")), NSub(PN(par, "Gamma"), N1))
  IN  [mu |-> mu, mut |-> mut, mueff |-> JAdd(mu, mut),
       kap |-> JScale(cp, JAdd(JScale(NDiv(N1, PN(par, "Pr")), mu), JScale(NDiv(N1, PN(par, "Pr_t")), mut))),
       T |-> JDiv(F.p, JScale(PN(par, "R"), F.rho))]
FansSource(par, fn, F, nu, production, destruction, frozen) ==
  LET cl == FansClosure(par, F, nu, frozen)
      eq == EqOf(fn)
  IN  IF eq = 0 THEN EulerMass(F)
      ELSE IF eq \in 1..2 THEN NSMom(F, cl.mueff, StokesLambda(cl.mueff), eq)
      ELSE IF eq = 4 THEN
             LET full == NSEnergy(F, PN(par, "Gamma"), cl.mueff, StokesLambda(cl.mueff), cl.kap, cl.T)
                 cv   == NDiv(PN(par, "R"), NSub(PN(par, "Gamma"), N1))
             \* recorded variant of the known finding: the unsteady term rho c_v dT/dt is absent as well
             IN  IF frozen THEN NSub(full, NMul(NMul(JV(F.rho), cv), JG(cl.T, 4))) ELSE full
      ELSE IF fn = "source_nu" THEN FansNuResidual(F, nu, cl.mu, PN(par, "sigma"), PN(par, "c_b2"), production, destruction)
      ELSE Undefined
FreeShear(par, fn, a, variant) ==
  LET three == Len(a) > 2
      C  == Coords(IF three THEN a ELSE a \o <<"0x0p+0">>, 2)       \* two-argument forms: t = 0
      F  == CartFields(par, C)
      nu == FreeShearNu(par, C)
      Cs == Coords(a, 2)
      noT == [k \in DOMAIN par \ {"u_t", "v_t", "p_t", "rho_t"} |-> par[k]]
      Fs == CartFields(noT, Cs)                                         \* t-independent parts
      Omega == NAbs(NSub(JG(F.u[1], 2), JG(F.u[2], 1)))
  IN  CASE fn = "exact_nu" -> JV(nu)
        [] fn \in {"exact_u", "exact_v", "exact_p", "exact_rho"} -> JV(FieldOf(Fs, fn))
        \* free shear: production c_b1 |omega| rho nu, no wall destruction
        [] OTHER -> FansSource(par, fn, F, nu, NMul(PN(par, "c_b1"), NMul(Omega, NMul(JV(F.rho), JV(nu)))), N0, variant)

\* fans_sa_steady_wall_bounded: compressible flat-plate boundary layer built from a law-of-the-wall profile
WallFields(par, C) ==
  LET kap == PN(par, "kappa") g == PN(par, "Gamma") R == PN(par, "R") Tinf == PN(par, "T_inf") M == PN(par, "M_inf")
      rT == PN(par, "r_T") p0 == PN(par, "p_0") mu == PN(par, "mu") eta1 == PN(par, "eta1") b == PN(par, "b")
      C1    == NAdd(NNeg(NDiv(NLog(kap), kap)), PN(par, "C"))
      uinf  == NMul(M, NSqrt(NMul(NMul(g, R), Tinf)))
      rhoinf == NDiv(p0, NMul(R, Tinf))
      Taw   == NMul(Tinf, NAdd(N1, NDiv(NMul(NMul(rT, NSub(g, N1)), NSq(M)), N2)))
      rhow  == NDiv(p0, NMul(R, Taw))
      A     == NSqrt(NSub(N1, NDiv(Tinf, Taw)))
      Fc    == NDiv(NSub(NDiv(Taw, Tinf), N1), NSq(NAsinL(A)))
      nuw   == NDiv(mu, rhow)
      Rex   == JScale(NDiv(NMul(rhoinf, uinf), mu), C.x)
      cf    == JScale(NDiv(PN(par, "C_cf"), Fc), JPow(JScale(NDiv(N1, Fc), Rex), NNeg(NFromRat(1, 7))))
      utau  == JScale(uinf, JSqrt(JScale(Half, cf)))
      yplus == JScale(NDiv(N1, nuw), JMul(C.y, utau))
      one   == JConst(N1)
      ueqp  == JAdd(JScale(NDiv(N1, kap), JLog(JAdd(one, JScale(kap, yplus)))),
                    JScale(C1, JSub(JSub(one, JExp(JScale(NNeg(NDiv(N1, eta1)), yplus))),
                                    JMul(JScale(NDiv(N1, eta1), yplus), JExp(JScale(NNeg(b), yplus))))))
      ueq   == JMul(utau, ueqp)
      U     == JScale(NDiv(uinf, A), JSin(JScale(NDiv(A, uinf), ueq)))
      V     == JScale(NDiv(PN(par, "eta_v"), NFromInt(14)), JDiv(JMul(utau, C.y), C.x))
      T     == JScale(Tinf, JAdd(one, JScale(NDiv(NMul(NMul(rT, NSub(g, N1)), NSq(M)), N2), JSub(one, JScale(NDiv(N1, NSq(uinf)), JSq(U))))))
      RHO   == JDiv(JConst(NDiv(p0, R)), T)
      NU    == JSub(JScale(kap, JMul(utau, C.y)), JScale(PN(par, "alpha"), JSq(C.y)))
  IN  [rho |-> RHO, u |-> <<U, V, JConst(N0)>>, p |-> JConst(p0), T |-> T, nu |-> NU]
WallBounded(par, fn, a) ==
  LET C  == Coords(a, 2)
      W  == WallFields(par, C)
      F  == [rho |-> W.rho, u |-> W.u, p |-> W.p]
      kap == PN(par, "kappa")
      cl == FansClosure(par, F, W.nu, FALSE)
      chi == NDiv(NMul(JV(W.rho), JV(W.nu)), PN(par, "mu"))
      fv1 == NDiv(JV(cl.mut), NMul(JV(W.rho), JV(W.nu)))
      d2  == NMul(NSq(kap), NSq(JV(C.y)))                 \* (kappa d)^2, wall distance d = y
      Omega == NAbs(NSub(JG(F.u[1], 2), JG(F.u[2], 1)))
      Sbar == NDiv(NMul(JV(W.nu), SAfv2N(chi, fv1)), d2)
      St  == SAStilde(Omega, Sbar, PN(par, "c_v2"), PN(par, "c_v3"))
      r   == NDiv(JV(W.nu), NMul(St, d2))
      cw1 == SAcw1(PN(par, "c_b1"), PN(par, "c_b2"), kap, PN(par, "sigma"))
      prod == NMul(PN(par, "c_b1"), NMul(St, NMul(JV(W.rho), JV(W.nu))))
      dest == NMul(NMul(cw1, SAfw(r, PN(par, "c_w2"), PN(par, "c_w3"))), NMul(JV(W.rho), NSq(NDiv(JV(W.nu), JV(C.y)))))
  IN  CASE fn = "exact_u" -> JV(W.u[1]) [] fn = "exact_v" -> JV(W.u[2]) [] fn = "exact_t" -> JV(W.T)
        [] fn = "exact_rho" -> JV(W.rho) [] fn = "exact_p" -> JV(W.p) [] fn = "exact_nu" -> JV(W.nu)
        [] OTHER -> FansSource(par, fn, F, W.nu, prod, dest, FALSE)

\* ------------------------------------------------------------------ reacting Euler, N / N2 (C06)
\* cb = <<kind, c0, c1, c2>>: the caller's equilibrium-constant function, by name
Callback(cb, T) ==
  LET c0 == NFromStr(cb[2]) c1 == NFromStr(cb[3]) c2 == NFromStr(cb[4])
  IN  CASE cb[1] = "arr"  -> NMul(NMul(c0, NPow(T, c1)), NExp(NNeg(NDiv(c2, T))))
        [] cb[1] = "poly" -> NAdd(c0, NAdd(NMul(c1, T), NMul(c2, NSq(T))))
        [] OTHER -> c0
Chem(par, fn, a, cb) ==
  LET C   == Coords(a, 1)
      L   == PN(par, "L")
      wav(amp, fr, kind) == JScale(PN(par, amp), Trig(kind, JScale(NDiv(NMul(PN(par, fr), NPi), L), C.x)))
      rN  == JAdd(JConst(PN(par, "rho_N_0")), wav("rho_N_x", "a_rho_N_x", "sin"))
      rN2 == JAdd(JConst(PN(par, "rho_N2_0")), wav("rho_N2_x", "a_rho_N2_x", "cos"))
      u   == JAdd(JConst(PN(par, "u_0")), wav("u_x", "a_ux", "sin"))
      T   == JAdd(JConst(PN(par, "T_0")), wav("T_x", "a_Tx", "cos"))
      rho == JAdd(rN, rN2)
      RN  == PN(par, "R_N")  RN2 == PN(par, "R_N2")
      \* The model has the molecule twice as heavy as the atom built in (M_N2 = 2 M_N in the rate below), so the
      \* gas constant of N2 in the pressure and in the translational-rotational energy is R_N / 2; the PARAMETER
      \* R_N2 is the coefficient of the vibrational energy (for R_N2 = R_N / 2 the two readings coincide; the
      \* library's own defaults are R_N = 0.6, R_N2 = 0.4).
      \* thermally perfect mixture: p = (rho_N R_N + rho_N2 R_N/2) T
      RM2 == NMul(Half, RN)
      p   == JMul(JAdd(JScale(RN, rN), JScale(RM2, rN2)), T)
      \* e_N = 3/2 R_N T + h0_N ; e_N2 = 5/2 (R_N/2) T + e_vib + h0_N2 ; e_vib = R_N2 theta_v / (exp(theta_v/T) - 1)
      th  == PN(par, "theta_v_N2")
      evib == JScale(NMul(RN2, th), JRecip(JSub(JExp(JScale(th, JRecip(T))), JConst(N1))))
      eN  == JAdd(JScale(NMul(NFromRat(3, 2), RN), T), JConst(PN(par, "h0_N")))
      eN2 == JAdd(JAdd(JScale(NMul(NFromRat(5, 2), RM2), T), evib), JConst(PN(par, "h0_N2")))
      rE  == JAdd(JAdd(JMul(rN, eN), JMul(rN2, eN2)), JScale(Half, JMul(rho, JSq(u))))
      \* dissociation N2 + M <-> 2N + M, M in {N, N2}; forward rates Arrhenius, backward via K_eq(T)
      Tn  == JV(T)
      kf(cf, et, ea) == NMul(NMul(PN(par, cf), NPow(Tn, PN(par, et))), NExp(NNeg(NDiv(PN(par, ea), NMul(PN(par, "R"), Tn)))))
      MN  == PN(par, "M_N")
      cN  == NDiv(JV(rN), MN)                       \* molar concentrations
      cN2 == NDiv(JV(rN2), NMul(N2, MN))
      kfs == NAdd(NMul(kf("Cf1_N", "etaf1_N", "Ea_N"), cN), NMul(kf("Cf1_N2", "etaf1_N2", "Ea_N2"), cN2))
      rate == NSub(NMul(kfs, cN2), NDiv(NMul(kfs, NSq(cN)), Callback(cb, Tn)))     \* net dissociation rate
      wN  == NMul(NMul(N2, MN), rate)               \* mass production of N; N2 loses the same
  IN  CASE fn = "exact_t" -> JV(T) [] fn = "exact_u" -> JV(u) [] fn = "exact_rho" -> JV(rho)
        [] fn = "exact_rho_N" -> JV(rN) [] fn = "exact_rho_N2" -> JV(rN2)
        [] fn = "source_rho_N"  -> NSub(JG(JMul(rN, u), 1), wN)
        [] fn = "source_rho_N2" -> NAdd(JG(JMul(rN2, u), 1), wN)
        [] fn = "source_rho_u"  -> NAdd(JG(JMul(rho, JSq(u)), 1), JG(p, 1))
        [] fn = "source_rho_e"  -> JG(JMul(u, JAdd(rE, p)), 1)
        [] OTHER -> Undefined

\* ------------------------------------------------------------------ closed forms (C08)
SodMinGap == NFromRat(1, 1000)       \* points closer than this (in x/t) to a wave front are not judged
Sod(par, fn, a) ==
  IF ~NLt(N0, NFromStr(a[2])) \/ ~NLt(N1, PN(par, "Gamma")) THEN Undefined ELSE       \* t > 0, Gamma > 1
  LET st == SodState(PN(par, "Gamma"), PN(par, "mu"), NFromStr(a[1]), NFromStr(a[2]))
      near == \E i \in 1..4 : NLt(NAbs(NSub(st.xi, st.fronts[i])), SodMinGap)
  IN  IF near THEN Undefined
      ELSE IF fn = "source_rho" THEN st.rho
      ELSE IF fn = "source_rho_u" THEN NMul(st.rho, st.u)
      ELSE Undefined
CpNormal(par, vec, fn, a, di) ==
  LET data == [i \in 1..Len(vec["vec_data"]) |-> NFromStr(vec["vec_data"][i])]
      n    == Len(data)
      xbar == Mean(data)
      m == PN(par, "m") sg == PN(par, "sigma") sd == PN(par, "sigma_d")
      x == NFromStr(a[1])
  IN  CASE fn = "prior" -> NormalPdf(x, m, NSq(sg))
        [] fn = "posterior" -> NormalPdf(x, PostMean(n, xbar, m, sg, sd), PostVar(n, sg, sd))
        [] fn = "loglikelyhood" -> LogLikelihood(x, n, xbar, sd)
        [] fn = "likelyhood" -> NExp(LogLikelihood(x, n, xbar, sd))
        [] fn = "posterior_mean" -> PostMean(n, xbar, m, sg, sd)
        [] fn = "posterior_variance" -> PostVar(n, sg, sd)
        [] fn = "central_moment" -> IF di \in 0..40 THEN CentralMoment(di, sg) ELSE Undefined
        [] OTHER -> Undefined

\* ------------------------------------------------------------------ radiation (not named by C01-C08: growth)
\* source_u = sum_i amp_i exp(-(x - mean_i)^2 / (2 stdev_i^2)); -1 when the three vectors differ in length
RECURSIVE GaussSum(_, _, _, _, _)
GaussSum(x, amp, mean, sd, i) ==
  IF i > Len(amp) THEN N0
  ELSE NAdd(NMul(NFromStr(amp[i]), NExp(NNeg(NDiv(NSq(NSub(x, NFromStr(mean[i]))), NMul(N2, NSq(NFromStr(sd[i]))))))),
            GaussSum(x, amp, mean, sd, i + 1))
\* exact_u = sum_i amp_i (Phi((x - mean_i)/stdev_i) - Phi(-mean_i/stdev_i)),  Phi(z) = (1 + erf z)/2  (the form of the pinned
\* eval_exact_u, a frozen form like the ablation sources: it is NOT the integral over [0, x] of the Gaussians source_u sums,
\* see DESIGN.md section 12); for x > 1000 the first Phi is replaced by 1; -1 for x <= 0 or vectors of different lengths
Phi(z) == NMul(Half, NAdd(N1, NErf(z)))
RECURSIVE PhiSum(_, _, _, _, _)
PhiSum(x, amp, mean, sd, i) ==
  IF i > Len(amp) THEN N0
  ELSE LET m == NFromStr(mean[i]) s == NFromStr(sd[i])
           up == IF NLt(NFromInt(1000), x) THEN N1 ELSE Phi(NDiv(NSub(x, m), s))
       IN  NAdd(NMul(NFromStr(amp[i]), NSub(up, Phi(NDiv(NNeg(m), s)))), PhiSum(x, amp, mean, sd, i + 1))
Radiation(vec, fn, a) ==
  IF fn \notin {"source_u", "exact_u"} THEN Undefined
  ELSE IF Len(vec["vec_amp"]) # Len(vec["vec_mean"]) \/ Len(vec["vec_amp"]) # Len(vec["vec_stdev"]) THEN NNeg(N1)
  ELSE IF fn = "source_u" THEN GaussSum(NFromStr(a[1]), vec["vec_amp"], vec["vec_mean"], vec["vec_stdev"], 1)
  ELSE IF NLe(NFromStr(a[1]), N0) THEN NNeg(N1)
  ELSE PhiSum(NFromStr(a[1]), vec["vec_amp"], vec["vec_mean"], vec["vec_stdev"], 1)

\* ------------------------------------------------------------------ ablation (not named by C01-C08: growth)
\* the exact fields (forms frozen from the pinned eval_exact_* bodies) and, for accuracy only, the source terms
Ablation(par, fn, a, cb) ==
  LET C == Coords(a, 1)
      L == PN(par, "L")
      wav(amp, fr, kind) == JScale(PN(par, amp), Trig(kind, JScale(NDiv(NMul(PN(par, fr), NPi), L), C.x)))
      rC  == JAdd(JConst(PN(par, "rho_C_0")), wav("rho_C_x", "a_rho_C_x", "sin"))
      rC3 == JAdd(JConst(PN(par, "rho_C3_0")), wav("rho_C3_x", "a_rho_C3_x", "cos"))
      \* Source terms: there is no documented system to derive them from (the momentum source uses the density of an
      \* N/N2 mixture, the pressure that of C/C3), so -- unlike everywhere else -- these are the forms of the pinned
      \* eval_q_* bodies, written out once more.  They decide nothing about C01-C08; they give C09 (accuracy in both
      \* precisions) and C10/C11 a 45-digit reference for this solution too.  source_rho_e is written as the operator
      \* it expands: d/dx[rho U (R T/(Gamma-1) + U^2/2)] + d/dx[P U] - d/dx[4/3 mu U U_x] - k T_xx, where -- as in the pinned
      \* body -- the density's VALUE is that of the N/N2 mixture and its DERIVATIVE that of C/C3 (the hybrid jet rhoH).
      U   == JAdd(JConst(PN(par, "u_0")), wav("u_x", "a_ux", "sin"))
      T   == JAdd(JConst(PN(par, "T_0")), wav("T_x", "a_Tx", "cos"))
      rN  == JAdd(JConst(PN(par, "rho_N_0")), wav("rho_N_x", "a_rho_N_x", "sin"))
      rN2 == JAdd(JConst(PN(par, "rho_N2_0")), wav("rho_N2_x", "a_rho_N2_x", "cos"))
      piL == NDiv(NPi, L)
      arg(fr) == JScale(NMul(PN(par, fr), piL), C.x)
      R   == PN(par, "R")  WC == PN(par, "W_C")  WC3 == PN(par, "W_C3")
      \* k pi amp / L for amplitude amp with frequency fr
      kap(amp, fr) == NMul(NMul(PN(par, fr), piL), PN(par, amp))
      rho == JAdd(rC, rC3)
      P   == JScale(R, JMul(T, JAdd(JScale(NDiv(N1, WC), rC), JScale(NDiv(N1, WC3), rC3))))
      MF  == JDiv(rC3, rho)
      MFE == JScale(PN(par, "A_C3Enc"), JDiv(JExp(JScale(NNeg(PN(par, "E_aC3nc")), JRecip(T))), P))
      Mdot == JScale(NMul(NMul(NSqrtL(N2), Half), PN(par, "beta_C3")),
                     JMul(JMul(JSqrt(JScale(NDiv(NDiv(PN(par, "k_B"), NPi), PN(par, "m_C3")), T)), JSub(MFE, MF)), rho))
      Dd  == NSub(PN(par, "D_C"), PN(par, "D_C3"))
      rhoH == <<JV(JAdd(rN, rN2)), rho[2], Zero10>>
      et  == JAdd(JScale(NDiv(R, NSub(PN(par, "Gamma"), N1)), T), JScale(Half, JSq(U)))
  IN  CASE fn = "exact_u" -> JV(U)
        [] fn = "source_rho_e" ->
             NSub(NSub(NAdd(JG(JMul(JMul(rhoH, U), et), 1), JG(JMul(P, U), 1)),
                       NMul(NMul(NFromRat(4, 3), PN(par, "mu")), JG(JMul(U, JD(U, 1)), 1))),
                  NMul(PN(par, "k"), JH(T, 1, 1)))
        [] fn = "exact_t" -> JV(T)
        [] fn = "exact_rho_C" -> JV(rC) [] fn = "exact_rho_C3" -> JV(rC3) [] fn = "exact_rho" -> JV(JAdd(rC, rC3))
        [] fn = "source_rho_C"  -> JV(JScale(kap("rho_C_x", "a_rho_C_x"), JMul(U, JCos(arg("a_rho_C_x")))))
        [] fn = "source_rho_C3" -> JV(JScale(NNeg(kap("rho_C3_x", "a_rho_C3_x")), JMul(U, JSin(arg("a_rho_C3_x")))))
        [] fn = "source_C" -> N0
        [] fn = "source_rho_u" ->
             JV(JAdd(JAdd(JScale(NNeg(NDiv(NMul(kap("rho_C3_x", "a_rho_C3_x"), R), WC3)), JMul(T, JSin(arg("a_rho_C3_x")))),
                          JScale(NDiv(NMul(kap("rho_C_x", "a_rho_C_x"), R), WC), JMul(T, JCos(arg("a_rho_C_x"))))),
                     JAdd(JScale(NMul(NMul(NFromRat(4, 3), PN(par, "mu")), NMul(kap("u_x", "a_ux"), NMul(PN(par, "a_ux"), piL))), JSin(arg("a_ux"))),
                          JScale(NMul(N2, kap("u_x", "a_ux")), JMul(JMul(JAdd(rN, rN2), U), JCos(arg("a_ux")))))))
        [] fn = "source_e" ->
             IF cb = <<>> THEN Undefined ELSE
             LET Tn == JV(T) IN
             NAdd(NSub(NSub(NMul(NMul(PN(par, "k"), kap("T_x", "a_Tx")), JV(JSin(arg("a_Tx")))),
                            NMul(NMul(PN(par, "sigma"), PN(par, "epsilon")), NSq(NSq(Tn)))),
                       NMul(JV(Mdot), Callback(cb, Tn))),
                  NMul(PN(par, "alpha"), PN(par, "qr")))
        [] fn = "source_C3" ->
             LET cC == JCos(arg("a_rho_C_x")) sC3 == JSin(arg("a_rho_C3_x")) ir == JRecip(rho) IN
             JV(JAdd(JAdd(JAdd(JScale(NMul(kap("rho_C_x", "a_rho_C_x"), PN(par, "D_C3")), JMul(JMul(rC3, cC), ir)),
                               JScale(NMul(kap("rho_C3_x", "a_rho_C3_x"), PN(par, "D_C3")), JMul(JMul(rC, sC3), ir))),
                          JAdd(JScale(NMul(kap("rho_C_x", "a_rho_C_x"), Dd), JMul(JMul(JSq(rC3), cC), JSq(ir))),
                               JScale(NMul(kap("rho_C3_x", "a_rho_C3_x"), Dd), JMul(JMul(JMul(rC, rC3), sC3), JSq(ir))))),
                     JMul(Mdot, JSub(MF, JConst(N1)))))
        [] fn = "source_boundary" -> JV(JSub(U, JDiv(Mdot, rho)))
        [] OTHER -> Undefined

\* ------------------------------------------------------------------ dispatch
HeatSols == {"heateq_1d_steady_const", "heateq_2d_steady_const", "heateq_3d_steady_const",
             "heateq_1d_steady_var", "heateq_2d_steady_var", "heateq_3d_steady_var",
             "heateq_1d_unsteady_const", "heateq_2d_unsteady_const", "heateq_3d_unsteady_const",
             "heateq_1d_unsteady_var", "heateq_2d_unsteady_var", "heateq_3d_unsteady_var"}
CartEuler == {"euler_1d", "euler_2d", "euler_3d", "euler_transient_1d", "euler_transient_2d", "euler_transient_3d"}
CartNS    == {"navierstokes_2d_compressible", "navierstokes_3d_compressible"}
AxiEuler  == {"axisymmetric_euler", "axi_euler_transient"}
AxiNS     == {"axisymmetric_navierstokes_compressible", "axi_cns_transient"}
SpaceDim(sol) ==
  CASE sol \in {"heateq_1d_steady_const", "heateq_1d_steady_var", "heateq_1d_unsteady_const", "heateq_1d_unsteady_var",
                "euler_1d", "euler_transient_1d"} -> 1
    [] sol \in {"heateq_3d_steady_const", "heateq_3d_steady_var", "heateq_3d_unsteady_const", "heateq_3d_unsteady_var",
                "euler_3d", "euler_transient_3d", "navierstokes_3d_compressible"} -> 3
    [] OTHER -> 2

\* variant: judge a known-deviating evaluator against the system it was actually derived from
Expected(sol, par, vec, fn, sig, args, cb, variant) ==
  LET a  == args[1]
      di == args[2]
      nd == SpaceDim(sol)
      C  == Coords(a, nd)
  IN
  CASE sol \in HeatSols ->
         IF fn = "source_t" THEN HeatSource(par, C)
         ELSE IF fn = "exact_t" THEN JV(HeatT(par, C)) ELSE Undefined
    [] sol \in CartEuler \cup CartNS ->
         LET F == CartFields(par, C)
             g == PN(par, "Gamma")
             viscous == sol \in CartNS
             mu == JConst(P0(par, "mu"))
             T  == JDiv(F.p, JScale(P0(par, "R"), F.rho))
             eq == EqOf(fn)
         IN  IF fn \in {"exact_rho", "exact_u", "exact_v", "exact_w", "exact_p"} THEN JV(FieldOf(F, fn))
             ELSE IF fn \in {"grad_rho", "grad_u", "grad_v", "grad_w", "grad_p"} THEN
                    IF args[3] = 0 THEN JG(GradFieldOf(F, fn), 1)          \* 1D: d/dx
                    ELSE IF di \in 1..nd THEN JG(GradFieldOf(F, fn), di) ELSE NNeg(N1)
             ELSE IF eq = 0 THEN EulerMass(F)
             ELSE IF eq \in 1..3 THEN (IF viscous THEN NSMom(F, mu, StokesLambda(mu), eq) ELSE EulerMom(F, eq))
             ELSE IF eq = 4 THEN (IF viscous THEN NSEnergy(F, g, mu, StokesLambda(mu), JConst(P0(par, "k")), T) ELSE EulerEnergy(F, g))
             ELSE Undefined
    [] sol \in AxiEuler \cup AxiNS ->
         LET F == AxiFields(sol, par, C)
             g == PN(par, "Gamma")
             R == C.x
             viscous == sol \in AxiNS
             mu == JConst(P0(par, "mu"))
             T  == JDiv(F.p, JScale(P0(par, "R"), F.rho))
         IN  CASE fn = "exact_rho" -> JV(F.rho) [] fn = "exact_p" -> JV(F.p)
               [] fn = "exact_u" -> JV(F.u[1]) [] fn = "exact_w" -> JV(F.u[2])
               [] fn = "source_rho" -> AxiMass(F, R)
               [] fn \in {"source_rho_u", "source_u"} ->
                    IF ~viscous THEN AxiMom(F, R, 1)
                    ELSE IF variant THEN VarAxiNSMomR(F, R, mu) ELSE AxiNSMomR(F, R, mu)
               [] fn \in {"source_rho_w", "source_w"} ->
                    IF ~viscous THEN AxiMom(F, R, 2)
                    ELSE IF variant THEN VarAxiNSMomZ(F, R, mu) ELSE AxiNSMomZ(F, R, mu)
               [] fn \in {"source_rho_e", "source_e"} ->
                    IF ~viscous THEN AxiEnergy(F, R, g)
                    ELSE IF variant THEN VarAxiNSEnergy(F, R, g, mu, JConst(P0(par, "k")), T)
                    ELSE AxiNSEnergy(F, R, g, mu, JConst(P0(par, "k")), T)
               [] OTHER -> Undefined
    [] sol = "navierstokes_4d_compressible_powerlaw" ->
         LET C4  == Coords(a, 3)
             rho == PLField(par, "rho", C4)
             T   == PLField(par, "T", C4)
             F   == [rho |-> rho, u |-> <<PLField(par, "u", C4), PLField(par, "v", C4), PLField(par, "w", C4)>>,
                     p |-> JScale(PN(par, "R"), JMul(rho, T))]
             \* mu = mu_r (T/T_r)^beta, lambda = lambda_r mu/mu_r, kappa = kappa_r mu/mu_r  (C03)
             pw  == JPow(JScale(NDiv(N1, PN(par, "T_r")), T), PN(par, "beta"))
             mu  == JScale(PN(par, "mu_r"), pw)
             lam == JScale(PN(par, "lambda_r"), pw)
             kap == JScale(PN(par, "kappa_r"), pw)
             g   == PN(par, "gamma")
             eq  == EqOf(fn)
             GF  == IF fn = "grad_t" THEN T ELSE GradFieldOf(F, fn)
         IN  IF fn = "exact_t" THEN JV(T)
             ELSE IF fn \in {"exact_rho", "exact_u", "exact_v", "exact_w", "exact_p"} THEN JV(FieldOf(F, fn))
             ELSE IF fn \in {"grad_rho", "grad_u", "grad_v", "grad_w", "grad_p", "grad_t"} THEN
                    IF di \in 1..3 THEN JG(GF, di) ELSE NotANumber
             ELSE IF eq = 0 THEN EulerMass(F)
             ELSE IF eq \in 1..3 THEN NSMom(F, mu, lam, eq)
             ELSE IF eq = 4 THEN NSEnergy(F, g, mu, lam, kap, T)
             ELSE Undefined
    \* points on or outside the boundary of the solution's domain are not judged: the channel is 0 < eta < 1, the wall
    \* of the wall-bounded solution is y = 0 (the library divides by the wall distance and takes its logarithm; limits
    \* that exist mathematically are 0/0 or inf - inf in floating point, and the repository's tests evaluate there)
    [] sol = "rans_sa" -> IF NLt(N0, NFromStr(a[1])) /\ NLt(NFromStr(a[1]), N1) THEN RansSA(par, fn, JVar(1, NFromStr(a[1]))) ELSE Undefined
    [] sol = "fans_sa_transient_free_shear" -> FreeShear(par, fn, a, variant)
    [] sol = "fans_sa_steady_wall_bounded" ->
         IF \A i \in 1..Len(a) : NLt(N0, NFromStr(a[i])) THEN WallBounded(par, fn, a) ELSE Undefined
    [] sol = "euler_chem_1d" -> Chem(par, fn, a, cb)
    [] sol = "sod_1d" -> IF sig = "SS" THEN Sod(par, fn, a) ELSE Undefined
    [] sol = "cp_normal" -> IF Len(vec["vec_data"]) = 0 THEN Undefined ELSE CpNormal(par, vec, fn, IF Len(a) > 0 THEN a ELSE <<"0">>, di)
    [] sol = "radiation_integrated_intensity" ->
         IF \E k \in DOMAIN vec : vec[k] = <<"$unk">> THEN Undefined ELSE Radiation(vec, fn, a)
    [] sol = "navierstokes_ablation_1d_steady" -> IF sig \in {"S", "SF"} THEN Ablation(par, fn, a, cb) ELSE Undefined
    [] sol = "laplace_2d" ->
         IF fn = "exact_phi" THEN JV(LaplacePhi(par, C))
         ELSE IF fn = "source_f" THEN Laplacian(LaplacePhi(par, C)) ELSE Undefined
    [] sol = "burgers_equation" ->
         \* the public source evaluators are the transient inviscid ones (C04): no viscous term
         LET u == BurgersUF(par, C, Len(a) > 2) v == BurgersVF(par, C, Len(a) > 2) nu == N0
         IN  CASE fn = "exact_u" -> JV(u) [] fn = "exact_v" -> JV(v)
               [] fn = "source_u" -> BurgersU(u, v, nu) [] fn = "source_v" -> BurgersV(u, v, nu)
               [] OTHER -> Undefined
    [] OTHER -> Undefined

\* known deviations for which the exact variant system is recorded in the specification
HasVariant(sol, fn) ==
  \/ sol = "axi_cns_transient" /\ fn \in {"source_u", "source_w", "source_e"}
  \/ sol = "fans_sa_transient_free_shear" /\ fn \in {"source_rho_u", "source_rho_v", "source_rho_e"}
  \/ sol = "axisymmetric_navierstokes_compressible" /\ fn \in {"source_rho_u", "source_rho_w"}

\* tolerance exponent: |got - expected| <= 2^KBits u_p mag   (DESIGN.md section 7)
KBits == IF "KBITS" \in DOMAIN IOEnv THEN (CHOOSE k \in 0..40 : ToString(k) = IOEnv.KBITS) ELSE 14

\* C20 pairs: the two values of a pair are two roundings of the same number (measured error of unchanged code: at most
\* 2^3 u mag each); 2^8 leaves room without hiding a double-precision intermediate in the long double instantiation (2^11)
PairKBits == IF "PAIRKBITS" \in DOMAIN IOEnv THEN (CHOOSE k \in 0..40 : ToString(k) = IOEnv.PAIRKBITS) ELSE 8
\* known deviations (known_findings.json, keys <<solution, evaluator>>): not judged here
KnownKeys == IF "KNOWN" \in DOMAIN IOEnv /\ IOEnv.KNOWN # "" THEN JsonDeserialize(IOEnv.KNOWN) ELSE <<>>
IsKnown(sol, fn) == \E i \in 1..Len(KnownKeys) : KnownKeys[i][1] = sol /\ KnownKeys[i][2] = fn

\* diagnostics (ERRSTAT=1): print the error of every judged value in units of u_p * mag, as a power of two
ErrStat(sol, fn, p, ret, e) ==
  IF "ERRSTAT" \in DOMAIN IOEnv /\ IOEnv.ERRSTAT = "1"
  THEN PrintT("ERRSTAT " \o sol \o " " \o fn \o " " \o p \o " " \o ToString(NErrBits(NFromStr(ret), e, p))) ELSE TRUE

\* known deviations are judged against their recorded variant (when one is recorded: the result must
\* still match it, so only the listed deviation is tolerated); everything else against the property
OracleAccept(p, sol, par, vec, fn, sig, args, cb, ret) ==
  LET known == IsKnown(sol, fn)
      e == TLCEval(Expected(sol, par, vec, fn, sig, args, cb, known))
  IN  \* TLC register 11: the expected value just computed, for the accuracy statistics of the same event (MasaTrace!AccStep),
      \* which would otherwise evaluate the oracle a second time
      TLCSet(11, <<<<sol, par, vec, fn, sig, args, cb, known>>, e>>) /\
      IF known /\ ~HasVariant(sol, fn) THEN TRUE
      ELSE IF Len(e) = 0 THEN TRUE
      \* the mathematics is not defined at these inputs (e.g. r = 0, t = 0, a negative density): not judged
      ELSE IF Len(e) > 1 /\ ~NIsFinite(e) THEN TRUE
      ELSE IF Len(e) = 1 THEN ~NIsFinite(NFromStr(ret))
      ELSE NClose(NFromStr(ret), e, KBits, p) /\ ErrStat(sol, fn, p, ret, e)
=============================================================================
