------------------------------- MODULE MasaOracle -------------------------------
(* placeholder: the numeric oracle (sections 4 of DESIGN.md) is developed in MasaOracle proper *)
OracleAccept(p, sol, par, vec, fn, sig, args, cb, ret) == TRUE
=============================================================================
