------------------------------- MODULE MasaOracle -------------------------------
(***************************************************************************************)
(* The value oracle: what a provided evaluator must return, as a function of the       *)
(* abstract state (current parameters, vectors) and the arguments of the call.         *)
(*   field definitions  -- the documented manufactured fields, as jets                 *)
(*   governing operator -- MasaPDE, applied to those jets                               *)
(* Source terms are never transcribed from MASA: they are always derived.              *)
(*                                                                                     *)
(* par: [name -> hex-float string], args = <<scalars, direction index, #index args>>,  *)
(* cb = <<>> or <<kind, c0, c1, c2>> (the caller-supplied function, by name).          *)
(***************************************************************************************)
EXTENDS MasaPDE, Json, IOUtils

Has(par, k) == k \in DOMAIN par
PN(par, k)  == NFromStr(par[k])
P0(par, k)  == IF Has(par, k) THEN NFromStr(par[k]) ELSE N0

\* ------------------------------------------------------------------ coordinates
\* scalar arguments: the spatial coordinates in order, then t when there is one more than `nsp`
\* coordinates that are not arguments are the constant 0 (they cannot occur in the fields)
Coords(a, nsp) ==
  LET n == Len(a)
      sp(i) == IF i <= n /\ i <= nsp THEN JVar(i, NFromStr(a[i])) ELSE JConst(N0)
  IN  [x |-> sp(1), y |-> sp(2), z |-> sp(3),
       t |-> IF n > nsp THEN JVar(4, NFromStr(a[n])) ELSE JConst(N0)]

\* ------------------------------------------------------------------ Roy-type fields
\* phi = phi_0 + sum_c phi_c trig_c(a_phic pi c / L)   (a term is present iff its amplitude is a parameter)
Trig(kind, a) == IF kind = "sin" THEN JSin(a) ELSE JCos(a)
RoyTerm(par, f, c, kind, V, L) ==
  IF Has(par, f \o "_" \o c)
  THEN JScale(PN(par, f \o "_" \o c), Trig(kind, JScale(NDiv(NMul(PN(par, "a_" \o f \o c), NPi), L), V)))
  ELSE JConst(N0)
RoyField(par, f, kx, ky, kz, kt, C) ==
  LET L == PN(par, "L") IN
  JAdd(JAdd(JConst(P0(par, f \o "_0")), JAdd(RoyTerm(par, f, "x", kx, C.x, L), RoyTerm(par, f, "y", ky, C.y, L))),
       JAdd(RoyTerm(par, f, "z", kz, C.z, L), RoyTerm(par, f, "t", kt, C.t, L)))
\* euler.page / cns.page (Roy et al.): which trigonometric function goes with which coordinate
Rho(par, C) == RoyField(par, "rho", "sin", "cos", "sin", "sin", C)
UU(par, C)  == RoyField(par, "u",   "sin", "cos", "cos", "cos", C)
VV(par, C)  == RoyField(par, "v",   "cos", "sin", "sin", "sin", C)
WW(par, C)  == RoyField(par, "w",   "sin", "sin", "cos", "cos", C)
PP(par, C)  == RoyField(par, "p",   "cos", "sin", "cos", "cos", C)
CartFields(par, C) == [rho |-> Rho(par, C), u |-> <<UU(par, C), VV(par, C), WW(par, C)>>, p |-> PP(par, C)]

\* ------------------------------------------------------------------ heat (heat.page eq. manufactured01)
HeatArg(par, ks, S, kt, T) == JAdd(JScale(P0(par, ks), S), JScale(P0(par, kt), T))
HeatT(par, C) ==
  JMul(JMul(JCos(HeatArg(par, "A_x", C.x, "A_t", C.t)), JCos(HeatArg(par, "B_y", C.y, "B_t", C.t))),
       JMul(JCos(HeatArg(par, "C_z", C.z, "C_t", C.t)), JCos(JScale(P0(par, "D_t"), C.t))))
HeatSource(par, C) ==
  LET T  == HeatT(par, C)
      K  == JPoly(<<P0(par, "k_0"), P0(par, "k_1"), P0(par, "k_2")>>, T)
      CP == JPoly(<<P0(par, "cp_0"), P0(par, "cp_1"), P0(par, "cp_2")>>, T)
  IN  HeatResidual(P0(par, "rho"), CP, K, T)

\* ------------------------------------------------------------------ axisymmetric fields (r = x, z = y)
AxiTerm(par, amp, freq, kind, V) ==
  JScale(PN(par, amp), Trig(kind, JScale(NDiv(NMul(PN(par, freq), NPi), PN(par, "L")), V)))
AxiFields(sol, par, C) ==
  LET one == JConst(N1)
      cosr(f) == Trig("cos", JScale(NDiv(NMul(PN(par, f), NPi), PN(par, "L")), C.x))
  IN
  IF sol = "axisymmetric_navierstokes_compressible" THEN
    [rho |-> JAdd(JConst(PN(par, "rho_0")), JMul(AxiTerm(par, "rho_1", "a_rhor", "cos", C.x), Trig("sin", JScale(NDiv(NMul(PN(par, "a_rhoz"), NPi), PN(par, "L")), C.y)))),
     p   |-> JAdd(JConst(PN(par, "p_0")), JMul(AxiTerm(par, "p_1", "a_pr", "sin", C.x), Trig("cos", JScale(NDiv(NMul(PN(par, "a_pz"), NPi), PN(par, "L")), C.y)))),
     u   |-> <<JMul(JScale(PN(par, "u_1"), JSub(cosr("a_ur"), one)), Trig("sin", JScale(NDiv(NMul(PN(par, "a_uz"), NPi), PN(par, "L")), C.y))),
               JAdd(JConst(PN(par, "w_0")), JMul(AxiTerm(par, "w_1", "a_wr", "cos", C.x), Trig("sin", JScale(NDiv(NMul(PN(par, "a_wz"), NPi), PN(par, "L")), C.y)))),
               JConst(N0)>>]
  ELSE
    LET tt(amp, freq, kind) == IF Has(par, amp) THEN AxiTerm(par, amp, freq, kind, C.t) ELSE JConst(N0) IN
    [rho |-> JAdd(JAdd(JConst(PN(par, "rho_0")), AxiTerm(par, "rho_r", "a_rhor", "cos", C.x)),
                  JAdd(AxiTerm(par, "rho_z", "a_rhoz", "sin", C.y), tt("rho_t", "a_rhot", "sin"))),
     p   |-> JAdd(JAdd(JConst(PN(par, "p_0")), AxiTerm(par, "p_r", "a_pr", "sin", C.x)),
                  JAdd(AxiTerm(par, "p_z", "a_pz", "cos", C.y), tt("p_t", "a_pt", "cos"))),
     u   |-> <<JMul(JScale(PN(par, "u_r"), JSub(cosr("a_ur"), one)),
                    IF Has(par, "u_t") THEN JAdd(AxiTerm(par, "u_z", "a_uz", "sin", C.y), tt("u_t", "a_ut", "cos"))
                    ELSE AxiTerm(par, "u_z", "a_uz", "sin", C.y)),
               JAdd(JAdd(JConst(PN(par, "w_0")), AxiTerm(par, "w_r", "a_wr", "cos", C.x)),
                    JAdd(AxiTerm(par, "w_z", "a_wz", "sin", C.y), tt("w_t", "a_wt", "cos"))),
               JConst(N0)>>]

\* ------------------------------------------------------------------ Laplace, Burgers (laplace.page, burgers.page)
LaplacePhi(par, C) ==
  LET Lx == JConst(PN(par, "Lx")) Ly == JConst(PN(par, "Ly"))
  IN  JAdd(JMul(JSq(JSub(Ly, C.y)), JSq(JAdd(Ly, C.y))), JMul(JSq(JSub(Lx, C.x)), JSq(JAdd(Lx, C.x))))
\* burgers.page eq. manufactured_2d_trans; the two-argument exact fields are the t-independent part
BurgersUF(par, C, withT) ==
  LET s == RoyField([k \in DOMAIN par \ {"u_t"} |-> par[k]], "u", "sin", "cos", "cos", "cos", C)
  IN  IF withT THEN JAdd(s, RoyTerm(par, "u", "t", "cos", C.t, PN(par, "L"))) ELSE s
BurgersVF(par, C, withT) ==
  LET s == RoyField([k \in DOMAIN par \ {"v_t"} |-> par[k]], "v", "cos", "sin", "sin", "sin", C)
  IN  IF withT THEN JAdd(s, RoyTerm(par, "v", "t", "sin", C.t, PN(par, "L"))) ELSE s

\* ------------------------------------------------------------------ dispatch
HeatSols == {"heateq_1d_steady_const", "heateq_2d_steady_const", "heateq_3d_steady_const",
             "heateq_1d_steady_var", "heateq_2d_steady_var", "heateq_3d_steady_var",
             "heateq_1d_unsteady_const", "heateq_2d_unsteady_const", "heateq_3d_unsteady_const",
             "heateq_1d_unsteady_var", "heateq_2d_unsteady_var", "heateq_3d_unsteady_var"}
CartEuler == {"euler_1d", "euler_2d", "euler_3d", "euler_transient_1d", "euler_transient_2d", "euler_transient_3d"}
CartNS    == {"navierstokes_2d_compressible", "navierstokes_3d_compressible"}
AxiEuler  == {"axisymmetric_euler", "axi_euler_transient"}
AxiNS     == {"axisymmetric_navierstokes_compressible", "axi_cns_transient"}
SpaceDim(sol) ==
  CASE sol \in {"heateq_1d_steady_const", "heateq_1d_steady_var", "heateq_1d_unsteady_const", "heateq_1d_unsteady_var",
                "euler_1d", "euler_transient_1d"} -> 1
    [] sol \in {"heateq_3d_steady_const", "heateq_3d_steady_var", "heateq_3d_unsteady_const", "heateq_3d_unsteady_var",
                "euler_3d", "euler_transient_3d", "navierstokes_3d_compressible"} -> 3
    [] OTHER -> 2

Undefined == <<>>
\* which equation a source-term name denotes: index 0 mass, 1..3 momentum, 4 energy
EqOf(fn) == CASE fn = "source_rho" -> 0
              [] fn \in {"source_rho_u", "source_u"} -> 1
              [] fn \in {"source_rho_v", "source_v"} -> 2
              [] fn \in {"source_rho_w", "source_w"} -> 3
              [] fn \in {"source_rho_e", "source_e"} -> 4
              [] OTHER -> 9
FieldOf(F, fn) == CASE fn = "exact_rho" -> F.rho [] fn = "exact_u" -> F.u[1] [] fn = "exact_v" -> F.u[2]
                    [] fn = "exact_w" -> F.u[3] [] fn = "exact_p" -> F.p
GradFieldOf(F, fn) == CASE fn = "grad_rho" -> F.rho [] fn = "grad_u" -> F.u[1] [] fn = "grad_v" -> F.u[2]
                        [] fn = "grad_w" -> F.u[3] [] fn = "grad_p" -> F.p

\* the expected value: a number, or Undefined when the oracle does not cover this evaluator
\* variant: judge a known-deviating evaluator against the system it was actually derived from
Expected(sol, par, vec, fn, sig, args, cb, variant) ==
  LET a  == args[1]
      di == args[2]
      nd == SpaceDim(sol)
      C  == Coords(a, nd)
  IN
  CASE sol \in HeatSols ->
         IF fn = "source_t" THEN HeatSource(par, C)
         ELSE IF fn = "exact_t" THEN JV(HeatT(par, C)) ELSE Undefined
    [] sol \in CartEuler \cup CartNS ->
         LET F == CartFields(par, C)
             g == PN(par, "Gamma")
             viscous == sol \in CartNS
             mu == JConst(P0(par, "mu"))
             T  == JDiv(F.p, JScale(P0(par, "R"), F.rho))
             eq == EqOf(fn)
         IN  IF fn \in {"exact_rho", "exact_u", "exact_v", "exact_w", "exact_p"} THEN JV(FieldOf(F, fn))
             ELSE IF fn \in {"grad_rho", "grad_u", "grad_v", "grad_w", "grad_p"} THEN
                    IF args[3] = 0 THEN JG(GradFieldOf(F, fn), 1)          \* 1D: d/dx
                    ELSE IF di \in 1..nd THEN JG(GradFieldOf(F, fn), di) ELSE NNeg(N1)
             ELSE IF eq = 0 THEN EulerMass(F)
             ELSE IF eq \in 1..3 THEN (IF viscous THEN NSMom(F, mu, StokesLambda(mu), eq) ELSE EulerMom(F, eq))
             ELSE IF eq = 4 THEN (IF viscous THEN NSEnergy(F, g, mu, StokesLambda(mu), JConst(P0(par, "k")), T) ELSE EulerEnergy(F, g))
             ELSE Undefined
    [] sol \in AxiEuler \cup AxiNS ->
         LET F == AxiFields(sol, par, C)
             g == PN(par, "Gamma")
             R == C.x
             viscous == sol \in AxiNS
             mu == JConst(P0(par, "mu"))
             T  == JDiv(F.p, JScale(P0(par, "R"), F.rho))
         IN  CASE fn = "exact_rho" -> JV(F.rho) [] fn = "exact_p" -> JV(F.p)
               [] fn = "exact_u" -> JV(F.u[1]) [] fn = "exact_w" -> JV(F.u[2])
               [] fn = "source_rho" -> AxiMass(F, R)
               [] fn \in {"source_rho_u", "source_u"} ->
                    IF ~viscous THEN AxiMom(F, R, 1)
                    ELSE IF variant THEN VarAxiNSMomR(F, R, mu) ELSE AxiNSMomR(F, R, mu)
               [] fn \in {"source_rho_w", "source_w"} ->
                    IF ~viscous THEN AxiMom(F, R, 2)
                    ELSE IF variant THEN VarAxiNSMomZ(F, R, mu) ELSE AxiNSMomZ(F, R, mu)
               [] fn \in {"source_rho_e", "source_e"} ->
                    IF ~viscous THEN AxiEnergy(F, R, g)
                    ELSE IF variant THEN VarAxiNSEnergy(F, R, g, mu, JConst(P0(par, "k")), T)
                    ELSE AxiNSEnergy(F, R, g, mu, JConst(P0(par, "k")), T)
               [] OTHER -> Undefined
    [] sol = "laplace_2d" ->
         IF fn = "exact_phi" THEN JV(LaplacePhi(par, C))
         ELSE IF fn = "source_f" THEN Laplacian(LaplacePhi(par, C)) ELSE Undefined
    [] sol = "burgers_equation" ->
         \* the public source evaluators are the transient inviscid ones (C04): no viscous term
         LET u == BurgersUF(par, C, Len(a) > 2) v == BurgersVF(par, C, Len(a) > 2) nu == N0
         IN  CASE fn = "exact_u" -> JV(u) [] fn = "exact_v" -> JV(v)
               [] fn = "source_u" -> BurgersU(u, v, nu) [] fn = "source_v" -> BurgersV(u, v, nu)
               [] OTHER -> Undefined
    [] OTHER -> Undefined

\* known deviations for which the exact variant system is recorded in the specification
HasVariant(sol, fn) ==
  \/ sol = "axi_cns_transient" /\ fn \in {"source_u", "source_w", "source_e"}
  \/ sol = "axisymmetric_navierstokes_compressible" /\ fn \in {"source_rho_u", "source_rho_w"}

\* tolerance exponent: |got - expected| <= 2^KBits u_p mag   (DESIGN.md section 7)
KBits == IF "KBITS" \in DOMAIN IOEnv THEN (CHOOSE k \in 0..40 : ToString(k) = IOEnv.KBITS) ELSE 14

\* known deviations (known_findings.json, keys <<solution, evaluator>>): not judged here
KnownKeys == IF "KNOWN" \in DOMAIN IOEnv /\ IOEnv.KNOWN # "" THEN JsonDeserialize(IOEnv.KNOWN) ELSE <<>>
IsKnown(sol, fn) == \E i \in 1..Len(KnownKeys) : KnownKeys[i][1] = sol /\ KnownKeys[i][2] = fn

\* known deviations are judged against their recorded variant (when one is recorded: the result must
\* still match it, so only the listed deviation is tolerated); everything else against the property
OracleAccept(p, sol, par, vec, fn, sig, args, cb, ret) ==
  LET known == IsKnown(sol, fn)
      e == Expected(sol, par, vec, fn, sig, args, cb, known)
  IN  \/ Len(e) = 0
      \/ NClose(NFromStr(ret), e, KBits, p)
      \/ known /\ ~HasVariant(sol, fn)
=============================================================================
