SPECIFICATION Spec
INVARIANT AbiOK
CHECK_DEADLOCK FALSE
