------------------------------- MODULE MasaAbi -------------------------------
(***************************************************************************************)
(* C18: the Fortran module and the SWIG module are views of the C ABI.  Nothing can be *)
(* executed here (no Fortran compiler, no SWIG): the specification models the *call*.  *)
(* A Fortran bind(C) interface fixes, per dummy argument, the C slot a conforming       *)
(* processor passes (Fortran 2003 interoperability rules):                             *)
(*      real(c_double), value        ->  double                                         *)
(*      real(c_double) [, dimension] ->  double*      (by reference)                    *)
(*      integer(c_int), value        ->  int                                            *)
(*      integer(c_int)               ->  int*                                           *)
(*      character(c_char) array      ->  char*                                          *)
(*      dummy procedure / c_funptr   ->  function pointer                               *)
(* and the result: subroutine -> void, real(c_double) function -> double, integer ->   *)
(* int.  The call is well-defined exactly when the C definition bound by name= has     *)
(* these slots in this order and this result.                                          *)
(* The tables come from harness/abi_extract.py (which only reads); TLC evaluates the   *)
(* predicates below over all of them -- a finite, complete check.                      *)
(***************************************************************************************)
EXTENDS Naturals, Sequences, FiniteSets, TLC, Json, IOUtils

Abi == JsonDeserialize(IOEnv.ABI)
Known == IF "KNOWN" \in DOMAIN IOEnv /\ IOEnv.KNOWN # "" THEN JsonDeserialize(IOEnv.KNOWN) ELSE <<>>
IsKnown(name, what) == \E i \in 1..Len(Known) : Known[i][1] = name /\ Known[i][2] = what

VARIABLE dummy

Slot(a) ==
  CASE a.kind = "real"      -> IF a.value /\ ~a.array THEN "double" ELSE "double*"
    [] a.kind = "integer"   -> IF a.value /\ ~a.array THEN "int" ELSE "int*"
    [] a.kind = "character" -> "char*"
    [] a.kind \in {"procedure", "funptr"} -> "fnptr"
    [] OTHER -> "?"
Result(f) == IF f.sub THEN "void"
             ELSE CASE f.result = "real" -> "double" [] f.result = "integer" -> "int" [] OTHER -> "?"

CDef(name) == LET hits == {i \in 1..Len(Abi.cdefs) : Abi.cdefs[i].name = name}
              IN  IF hits = {} THEN <<>> ELSE <<Abi.cdefs[CHOOSE i \in hits : TRUE]>>
Exported(name) == Abi.exported = <<>> \/ \E i \in 1..Len(Abi.exported) : Abi.exported[i] = name
Seq2Set(s) == {s[i] : i \in 1..Len(s)}

\* the discrepancies of one Fortran interface, as a set of tags
FortranIssues(f) ==
  LET d == CDef(f.cname) IN
  IF d = <<>> THEN {"undefined"} ELSE
  LET c == d[1] IN
     (IF ~Exported(f.cname) THEN {"not-exported"} ELSE {})
     \cup (IF Len(c.args) # Len(f.args) THEN {"arity"} ELSE
             IF \E i \in 1..Len(c.args) : Slot(f.args[i]) # c.args[i] THEN {"convention"} ELSE {})
     \cup (IF Result(f) # c.ret THEN {"result"} ELSE {})
\* every function declared in the public header is defined, with the same types, and exported
DeclIssues(h) ==
  LET d == CDef(h.name) IN
  IF d = <<>> THEN {"undefined"} ELSE
     (IF ~Exported(h.name) THEN {"not-exported"} ELSE {})
     \cup (IF d[1].args # h.args \/ d[1].ret # h.ret THEN {"types"} ELSE {})
\* one C symbol is defined once
DupDefs == {Abi.cdefs[i].name : i \in {j \in 1..Len(Abi.cdefs) : \E k \in 1..Len(Abi.cdefs) : k # j /\ Abi.cdefs[k].name = Abi.cdefs[j].name}}
\* the SWIG module wraps exactly the public header
\* ... masa.i consists of %module masa and %include "masa.h" and no other directive (%ignore, %rename, %extend, %inline ...
\* would make the module differ from the header), and the header shows SWIG (macro SWIG defined) exactly the functions it
\* shows a C caller, which are exactly the functions of its extern "C" block
SameDecls(a, b) == Seq2Set(a) = Seq2Set(b)
SwigOK == /\ Abi.swig.includes = <<"masa.h">> /\ Abi.swig.imports = <<>> /\ Abi.swig.module = <<"masa">> /\ Abi.swig.directives = <<>>
          /\ SameDecls(Abi.swigview, Abi.cview) /\ SameDecls(Abi.cview, Abi.cdecls) /\ Len(Abi.swigview) = Len(Abi.cdecls)

Report(tag, name, what) == PrintT("ABI " \o tag \o " " \o name \o " " \o what)
FortranBad == {i \in 1..Len(Abi.fortran) : \E w \in FortranIssues(Abi.fortran[i]) : ~IsKnown(Abi.fortran[i].fname, w)}
FortranKnown == {i \in 1..Len(Abi.fortran) : \E w \in FortranIssues(Abi.fortran[i]) : IsKnown(Abi.fortran[i].fname, w)}
DeclBad == {i \in 1..Len(Abi.cdecls) : DeclIssues(Abi.cdecls[i]) # {}}

AbiOK ==
  /\ \A i \in FortranKnown : \A w \in FortranIssues(Abi.fortran[i]) : IsKnown(Abi.fortran[i].fname, w) => Report("KNOWN", Abi.fortran[i].fname, w)
  /\ \A i \in FortranBad : \A w \in FortranIssues(Abi.fortran[i]) : Report("VIOLATION fortran", Abi.fortran[i].fname \o " -> " \o Abi.fortran[i].cname, w)
  /\ \A i \in DeclBad : \A w \in DeclIssues(Abi.cdecls[i]) : Report("VIOLATION header", Abi.cdecls[i].name, w)
  /\ \A n \in DupDefs : Report("VIOLATION cdef", n, "defined-twice")
  /\ (SwigOK \/ Report("VIOLATION swig", "masa.i", "does not wrap exactly masa.h"))
  /\ \A d \in Seq2Set(Abi.cdecls) \ Seq2Set(Abi.swigview) : Report("VIOLATION swig", d.name, "declared by the header but hidden from SWIG")
  /\ \A d \in Seq2Set(Abi.swigview) \ Seq2Set(Abi.cdecls) : Report("VIOLATION swig", d.name, "shown to SWIG only")
  /\ \A d \in (Seq2Set(Abi.cdecls) \ Seq2Set(Abi.cview)) \cup (Seq2Set(Abi.cview) \ Seq2Set(Abi.cdecls)) : Report("VIOLATION header", d.name, "conditionally declared")
  /\ PrintT("ABI COUNTS " \o ToString(Len(Abi.fortran)) \o " " \o ToString(Len(Abi.cdecls)) \o " " \o ToString(Len(Abi.cdefs)))
  /\ FortranBad = {} /\ DeclBad = {} /\ DupDefs = {} /\ SwigOK
  \* the tables are not vacuous
  /\ Len(Abi.fortran) > 0 /\ Len(Abi.cdecls) > 0 /\ Len(Abi.cdefs) > 0

Init == dummy = 0
Next == UNCHANGED dummy
Spec == Init /\ [][Next]_dummy
=============================================================================
