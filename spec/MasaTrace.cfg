SPECIFICATION TSpec
INVARIANTS SelValid HeapExact RegSound ExitedQuiet
PROPERTIES Isolation PrecIndependent SelSticky SelMoves EvalPure FatalIntact FatalOnlyIfMisuse NoUseBeforeInit ReinitFresh SetThenGet
POSTCONDITION Accepted
CHECK_DEADLOCK FALSE
