SPECIFICATION TSpec
INVARIANTS SelValid HeapExact RegSound ExitedQuiet
PROPERTIES Isolation PrecIndependent SelSticky SelMoves EvalPure FatalIntact FatalOnlyIfMisuse NoUseBeforeInit ReinitFresh SetThenGet HeapStable
POSTCONDITION Accepted
CHECK_DEADLOCK FALSE
