------------------------------- MODULE MasaNames -------------------------------
(***************************************************************************************)
(* Solution-name normalisation (C13).  Strings are sequences of character codes.       *)
(* masa_init resolves the solution string after lower-casing it and deleting every     *)
(* '-' (45) and every ' ' (32), wherever and however often they occur -- and nothing   *)
(* else: any other character is significant.                                           *)
(***************************************************************************************)
EXTENDS Naturals, Sequences

RECURSIVE NormCodes(_)
NormCodes(cs) ==
  IF cs = <<>> THEN <<>>
  ELSE LET c == Head(cs)
           l == IF c \in 65..90 THEN c + 32 ELSE c
       IN  IF c = 45 \/ c = 32 THEN NormCodes(Tail(cs)) ELSE <<l>> \o NormCodes(Tail(cs))
=============================================================================
