------------------------------- MODULE MasaTrace -------------------------------
(***************************************************************************************)
(* Trace specification: Masa.tla with the concrete catalogue, driven by an ndjson log  *)
(* of the real library (harness/driver.cpp).  One log line = one public call = one     *)
(* action of Masa.tla with its arguments and its observed outcome bound from the line. *)
(* Everything is logged, nothing is inferred except default values (dflt), so the      *)
(* search is linear in the length of the log.  The log is accepted iff every line is   *)
(* consumed; all invariants and action properties of Masa.tla are checked on the way.  *)
(*                                                                                     *)
(* Environment:  TRACE  path of the log                                                *)
(*               BUILD  "exit" | "exc"   which masa_exit the library was built with    *)
(*               RELAX_LIVE / RELAX_MEMO / RELAX_VALUE = "1": switch one group of      *)
(*                      conjuncts off.  Used (a) to attribute a rejection: the wrapper *)
(*                      re-runs the rejected prefix with one group relaxed at a time,  *)
(*                      (b) to keep a check about its own property (e.g. the heap      *)
(*                      binding belongs to C19, not to the parameter-store check)      *)
(*               ORACLE "1" to judge evaluator values with the numeric oracle          *)
(***************************************************************************************)
EXTENDS Integers, Sequences, FiniteSets, TLC, Json, IOUtils, SequencesExt, MasaOracle

VARIABLES reg, sel, live, status, dflt, memo, act, l,
          pairs,  \* history: reduction-pair label -> first value seen (C20)
          hp,     \* observation: bytes the driver's allocator has handed out and not got back (0: no accounting)
          acc     \* history (ACCSTAT=1): <<solution, evaluator>> -> error of every judged result, in bits of
                  \* u_p * mag, per precision (C09: long double must not be limited to double accuracy)

Cat == INSTANCE MasaCatalog

Log      == ndJsonDeserialize(IOEnv.TRACE)
TBuild   == IF "BUILD" \in DOMAIN IOEnv THEN IOEnv.BUILD ELSE "exc"
Relaxed(g) == LET k == "RELAX_" \o g IN k \in DOMAIN IOEnv /\ IOEnv[k] = "1"
UseOracle == "ORACLE" \in DOMAIN IOEnv /\ IOEnv.ORACLE = "1"

TPrec == {"d", "ld"}
TMarker(p)      == IF p = "d" THEN "-0x1.81cd5c28f5c29p+13" ELSE "-0xc.0e6ae147ae148p+10"   \* -12345.67
TSentinel(p)    == IF p = "d" THEN "-0x1.547ae147ae148p+0"  ELSE "-0xa.a3d70a3d70a4p-3"      \* -1.33
TNoSuchParam(p) == IF p = "d" THEN "-0x1.4p+4"              ELSE "-0xap+1"                   \* -20
TOne(p)         == IF p = "d" THEN "0x1p+0"                 ELSE "0x8p-3"                    \* 1
\* masa_display_param prints with precision(16): the printed decimal agrees with the stored value to 16 significant
\* digits (a non-finite stored value prints as nan/inf: not compared)
TDispAccept(p, v, s) ==
  LET a == NFromStr(v) b == NFromStr(s)
  IN  IF ~NIsFinite(a) THEN TRUE
      ELSE NIsFinite(b) /\ NLe(NAbs(NSub(a, b)), NMul(NFromStr("1e-15"), NAbs(a)))
TInitDflt ==
  [p \in TPrec |-> [n \in {Cat!Catalog[i].name : i \in 1..Len(Cat!Catalog)} |->
      LET e == Cat!Catalog[CHOOSE i \in 1..Len(Cat!Catalog) : Cat!Catalog[i].name = n]
      IN  [par |-> [k \in e.pars |-> "$unk"], vec |-> [k \in e.vecs |-> <<"$unk">>]]]]

\* the value oracle (MasaOracle): only consulted for evaluators the oracle defines
\* (IF, not a disjunction: inside an action TLC explores every disjunct, it does not short-circuit)
TEvalAccept(p, sol, par, vec, fn, sig, args, cb, ret) ==
  IF ~UseOracle \/ Relaxed("VALUE") THEN TRUE
  ELSE IF \E k \in DOMAIN par : par[k] = "$unk" \/ par[k] = TMarker(p) THEN TRUE      \* unobserved default / purged parameter: not judged
  ELSE IF cb # <<>> /\ cb[1] = "opaque" THEN TRUE                  \* a caller-supplied function the specification cannot name
  ELSE OracleAccept(p, sol, par, vec, fn, sig, args, cb, ret)

\* args = <<scalars, direction index, number of index arguments, pair label>>; spatial gradient directions are
\* 1..min(dimension, 3)
TArgsRegular(sol, fn, sig, args) ==
  LET e == Cat!Catalog[CHOOSE i \in 1..Len(Cat!Catalog) : Cat!Catalog[i].name = sol]
      nd == IF e.dim > 3 THEN 3 ELSE e.dim
  IN  /\ args[3] = 1 => args[2] \in 1..nd
      \* C14 speaks of an INTERIOR point: every coordinate strictly positive (walls, the axis and t = 0 are
      \* boundaries, where e.g. the wall-bounded solutions legitimately divide by the wall distance)
      /\ \A i \in 1..Len(args[1]) : NLt(N0, NFromStr(args[1][i]))

M == INSTANCE Masa WITH Prec <- TPrec, Catalog <- Cat!Catalog, Build <- TBuild,
                        Marker <- TMarker, Sentinel <- TSentinel, NoSuchParam <- TNoSuchParam, One <- TOne, DispAccept <- TDispAccept,
                        InitDflt <- TInitDflt, UseMemo <- ~Relaxed("MEMO"), EvalAccept <- TEvalAccept,
                        ArgsRegular <- TArgsRegular

tvars == <<reg, sel, live, status, dflt, memo, act, l, pairs, acc, hp>>

Ev == Log[l]
\* the observed outcome: the event itself, with the list-valued observations turned into sets
Out(e) == [e EXCEPT !.tags = Range(e.tags)]
OutW(e) == [e EXCEPT !.tags = Range(e.tags), !.warn = Range(e.warn)]

IsEvent(op) == /\ l <= Len(Log) /\ Ev.op = op /\ l' = l + 1
               /\ hp' = IF "heap" \in DOMAIN Ev THEN Ev.heap ELSE hp
\* the hook counter must agree with the specification's heap after every call that returned or threw
LiveBound(e) == IF Relaxed("LIVE") THEN TRUE ELSE e.live[1] = live'["d"] /\ e.live[2] = live'["ld"]

TInit      == IsEvent("init")    /\ M!Init(Ev.p, Ev.api, Ev.h, Ev.sc, Out(Ev))              /\ LiveBound(Ev)
TSelect    == IsEvent("select")  /\ M!Select(Ev.p, Ev.api, Ev.h, Out(Ev))                   /\ LiveBound(Ev)
TList      == IsEvent("list")    /\ M!List(Ev.p, Ev.api, Out(Ev))                           /\ LiveBound(Ev)
TPrintId   == IsEvent("printid") /\ M!PrintId(Ev.p, Ev.api, Out(Ev))                        /\ LiveBound(Ev)
TName      == IsEvent("name")    /\ M!GetName(Ev.p, Ev.api, Out(Ev))                        /\ LiveBound(Ev)
TDim       == IsEvent("dim")     /\ M!GetDim(Ev.p, Ev.api, Out(Ev))                         /\ LiveBound(Ev)
TSetParam  == IsEvent("setp")    /\ M!SetParam(Ev.p, Ev.api, Ev.k, Ev.v, Out(Ev))           /\ LiveBound(Ev)
TGetParam  == IsEvent("getp")    /\ M!GetParam(Ev.p, Ev.api, Ev.k, Out(Ev))                 /\ LiveBound(Ev)
TInitParam == IsEvent("initp")   /\ M!InitParam(Ev.p, Ev.api, Out(Ev))                      /\ LiveBound(Ev)
TPurge     == IsEvent("purge")   /\ M!Purge(Ev.p, Ev.api, Out(Ev))                          /\ LiveBound(Ev)
TSanity    == IsEvent("sanity")  /\ M!Sanity(Ev.p, Ev.api, IF "warn" \in DOMAIN Ev THEN OutW(Ev) ELSE Out(Ev)) /\ LiveBound(Ev)
TSetVec    == IsEvent("setv")    /\ M!SetVec(Ev.p, Ev.api, Ev.k, Ev.v, Out(Ev))             /\ LiveBound(Ev)
TGetVec    == IsEvent("getv")    /\ M!GetVec(Ev.p, Ev.api, Ev.k, Out(Ev))                   /\ LiveBound(Ev)
TDispP     == IsEvent("dispp")   /\ M!DisplayParam(Ev.p, Ev.api, Out(Ev))                   /\ LiveBound(Ev)
TDispV     == IsEvent("dispv")   /\ M!DisplayVec(Ev.p, Ev.api, Out(Ev))                     /\ LiveBound(Ev)
\* C20: two evaluations that the history marks as a reduction pair (the same model seen through two
\* catalogue entries, same precision) agree within roundoff of the common operator
PairStep(e) ==
  IF e.pair = "" \/ e.end # "ret" \/ ~UseOracle THEN UNCHANGED pairs
  ELSE LET key == <<e.p, e.pair>> IN
       IF key \in DOMAIN pairs
       THEN /\ UNCHANGED pairs
            /\ LET inst == reg[e.p][sel[e.p]]
                    x == Expected(inst.sol, [k \in DOMAIN inst.par |-> M!ParVal(e.p, inst, k)],
                                  [k \in DOMAIN inst.vec |-> M!VecVal(e.p, inst, k)],
                                  e.fn, e.sig, <<e.a, e.di, e.ni, e.pair>>, e.cb, FALSE)
                IN  Len(x) > 1 /\ NCloseTo(NFromStr(pairs[key]), NFromStr(e.ret), x, PairKBits, e.p)
       ELSE pairs' = [k \in DOMAIN pairs \cup {key} |-> IF k = key THEN e.ret ELSE pairs[k]]
\* C09: accuracy statistics.  The same algorithm run in long double must be as accurate, in long double
\* roundoffs, as it is in double roundoffs: a double temporary or constant inside the long double
\* instantiation shifts its error distribution up by about 11 bits in the terms it contaminates.
UseAcc == "ACCSTAT" \in DOMAIN IOEnv /\ IOEnv.ACCSTAT = "1"
AccStep(e) ==
  IF ~UseAcc \/ ~UseOracle \/ e.end # "ret" \/ sel[e.p] = "$none" THEN UNCHANGED acc
  ELSE LET inst == reg[e.p][sel[e.p]]
           par  == [k \in DOMAIN inst.par |-> M!ParVal(e.p, inst, k)]
           vec  == [k \in DOMAIN inst.vec |-> M!VecVal(e.p, inst, k)]
           ckey == <<inst.sol, par, vec, e.fn, e.sig, <<e.a, e.di, e.ni, e.pair>>, e.cb, IsKnown(inst.sol, e.fn)>>
           c    == TLCGet(11)          \* what OracleAccept computed for this very event, if it ran
           x == IF \E k \in DOMAIN par : par[k] = "$unk" THEN <<>>
                ELSE IF Len(c) = 2 THEN (IF c[1] = ckey THEN c[2] ELSE Expected(inst.sol, par, vec, e.fn, e.sig, <<e.a, e.di, e.ni, e.pair>>, e.cb, IsKnown(inst.sol, e.fn)))
                ELSE Expected(inst.sol, par, vec, e.fn, e.sig, <<e.a, e.di, e.ni, e.pair>>, e.cb, IsKnown(inst.sol, e.fn))
           key == <<inst.sol, e.fn>>
       IN  IF Len(x) <= 1 \/ (IsKnown(inst.sol, e.fn) /\ ~HasVariant(inst.sol, e.fn)) THEN UNCHANGED acc
           ELSE LET b0 == NErrBits(NFromStr(e.ret), x, e.p)
                    b  == IF b0 < -20 THEN -20 ELSE b0
                    old == IF key \in DOMAIN acc THEN acc[key] ELSE [d |-> <<>>, ld |-> <<>>]
                    new == IF e.p = "d" THEN [old EXCEPT !.d = Append(@, b)] ELSE [old EXCEPT !.ld = Append(@, b)]
                IN  acc' = [k \in DOMAIN acc \cup {key} |-> IF k = key THEN new ELSE acc[k]]
Median(s) == SortSeq(s, <)[(Len(s) + 1) \div 2]
MaxOf(s) == SortSeq(s, <)[Len(s)]
AccMinSamples == 6
\* thresholds (bits) from the measured spread of the statistic for code that is clean in both precisions
\* (195 evaluator groups x 2 seeds, n ~ 10: median shift within -3..3, maximum shift within -3..3):
\* a shift of the median by more than 4 bits (more than 2 with >= 64 samples), or of the maximum by more
\* than 4 bits, is not roundoff noise.  The wrapper confirms a rejection on a fresh sample ten times as large.
MedShift(n) == IF n >= 64 THEN 2 ELSE 4
AccBad == {k \in DOMAIN acc : /\ Len(acc[k].d) >= AccMinSamples /\ Len(acc[k].ld) >= AccMinSamples
                              /\ \/ Median(acc[k].ld) > Median(acc[k].d) + MedShift(Len(acc[k].ld)) /\ Median(acc[k].ld) > -6
                                 \/ MaxOf(acc[k].ld) > MaxOf(acc[k].d) + 4 /\ MaxOf(acc[k].ld) > -3}
AccOK == IF Relaxed("ACC") THEN TRUE
         ELSE \A k \in AccBad : PrintT("ACCFAIL " \o k[1] \o " " \o k[2] \o " " \o ToString(Median(acc[k].d)) \o " " \o ToString(Median(acc[k].ld)) \o " max " \o ToString(MaxOf(acc[k].d)) \o " " \o ToString(MaxOf(acc[k].ld))) /\ FALSE
TEval      == IsEvent("eval")    /\ M!Eval(Ev.p, Ev.api, Ev.fn, Ev.sig, <<Ev.a, Ev.di, Ev.ni, Ev.pair>>, Ev.cb, Out(Ev)) /\ LiveBound(Ev) /\ PairStep(Ev) /\ AccStep(Ev)

TTestPoly  == IsEvent("testpoly") /\ M!TestPoly(Ev.p, Ev.api, Out(Ev))                      /\ LiveBound(Ev)
TVersion   == IsEvent("version")  /\ M!Version(Ev.p, Ev.api, Out(Ev), 5101)                 /\ LiveBound(Ev)    \* 0.51.1
TPassFunc  == IsEvent("passfunc") /\ M!PassFunc(Ev.p, Ev.api, Out(Ev),
                   IF Ev.end # "ret" THEN TRUE ELSE NClose(NFromStr(Ev.ret), Callback(Ev.cb, NFromStr(Ev.a)), 6, Ev.p)) /\ LiveBound(Ev)
TTestDefault == IsEvent("testdefault") /\ M!TestDefault(Ev.p, Ev.api, Ev.v, Ev.v = TMarker(Ev.p) \/ Ev.v = TSentinel(Ev.p), Out(Ev))        /\ LiveBound(Ev)

\* "end": the script ran to completion; the process is still running, nothing changed
TEnd == /\ IsEvent("end") /\ status = "run" /\ AccOK
        /\ IF Relaxed("LIVE") THEN TRUE ELSE (Ev.live[1] = live["d"] /\ Ev.live[2] = live["ld"])
        /\ UNCHANGED <<reg, sel, live, status, dflt, memo, act>>
\* "fini": after every static destructor ran, nothing the library allocated is left (C19)
TFini == /\ IsEvent("fini")
         /\ IF Relaxed("LIVE") THEN TRUE ELSE (Ev.live[1] = 0 /\ Ev.live[2] = 0)
         /\ UNCHANGED <<reg, sel, live, status, dflt, memo, act>>
\* "reset": the next execution (a new process) starts here; what was learned about defaults stays
TReset == /\ IsEvent("reset")
          /\ reg' = [p \in TPrec |-> <<>>] /\ sel' = [p \in TPrec |-> "$none"]
          /\ live' = [p \in TPrec |-> 0] /\ status' = "run"
          \* purity holds across processes too: executions of one group share the memo
          /\ memo' = IF "keep" \in DOMAIN Ev /\ Ev.keep THEN memo ELSE <<>>
          /\ act' = [name |-> "start"] /\ UNCHANGED dflt /\ pairs' = <<>> /\ acc' = <<>>

\* "ambient": a step of the environment, not of MASA -- the caller's process leaves errno at EDOM / ERANGE and the floating-point
\* exception flags raised (or clears them).  None of it is MASA's state: the step stutters on every variable of Masa.tla, and
\* every later action must be explained from (reg, sel, memo, ...) alone -- a result that depends on errno is rejected as a
\* wrong value or a memo (purity) mismatch
TAmbient == IsEvent("ambient") /\ UNCHANGED <<reg, sel, live, status, dflt, memo, act>>

TNext == \/ TEval
         \/ TReset
         \/ /\ UNCHANGED <<pairs, acc>>
            /\ \/ TInit \/ TSelect \/ TList \/ TPrintId \/ TName \/ TDim
               \/ TSetParam \/ TGetParam \/ TInitParam \/ TPurge \/ TSanity
               \/ TSetVec \/ TGetVec \/ TDispP \/ TDispV
               \/ TTestPoly \/ TVersion \/ TPassFunc \/ TTestDefault
               \/ TEnd \/ TFini \/ TAmbient

\* after exit(1) the process may only be followed by its fini record or a reset
ExitedQuiet == status = "exited" => (l > Len(Log) \/ Log[l].op \in {"fini", "reset"})

TInit0 == M!Init0 /\ l = 1 /\ pairs = <<>> /\ acc = <<>> /\ hp = 0 /\ TLCSet(11, <<>>)
TSpec  == TInit0 /\ [][TNext]_tvars

\* acceptance: every line consumed
Accepted == TLCGet("stats").diameter - 1 = Len(Log)
\* the invariants of Masa.tla, evaluated in every state of the trace
SelValid  == M!SelValid
HeapExact == M!HeapExact
RegSound  == M!RegSound
\* action properties of Masa.tla (with l as an extra, always changing, variable)
Isolation       == M!Isolation
PrecIndependent == M!PrecIndependent
SelSticky       == M!SelSticky
SelMoves        == M!SelMoves
EvalPure        == M!EvalPure
FatalIntact     == M!FatalIntact
FatalOnlyIfMisuse == M!FatalOnlyIfMisuse
NoUseBeforeInit == M!NoUseBeforeInit
ReinitFresh     == M!ReinitFresh
SetThenGet      == M!SetThenGet
\* C19: initialising the same handle with the same solution again releases exactly what it allocates --
\* memory in use does not grow with further masa_init calls (and not with the size of the catalogue)
HeapStable ==
  [][(/\ act'.name = "init" /\ act.name = "init" /\ act'.p = act.p /\ act'.args = act.args
      /\ M!Returned(act.o) /\ M!Returned(act'.o) /\ hp > 0 /\ ~Relaxed("LIVE"))
     => hp' = hp]_tvars
=============================================================================
