SPECIFICATION Spec
INVARIANT OracleOK
CHECK_DEADLOCK FALSE
