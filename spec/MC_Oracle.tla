------------------------------- MODULE MC_Oracle -------------------------------
(***************************************************************************************)
(* Who checks the oracle?  Specification-only validation of the numeric layer; no MASA *)
(* code is involved.  Every governing operator of MasaPDE must annihilate (or          *)
(* reproduce the hand-derived residual of) textbook exact solutions before it is        *)
(* allowed to judge the library; MasaReal is checked against reference values and       *)
(* identities; MasaJet against hand derivatives; MasaClosed against the jump            *)
(* conditions it is meant to satisfy; and the operators against each other (the C20     *)
(* reductions, cylindrical against Cartesian).                                          *)
(***************************************************************************************)
EXTENDS MasaPDE, MasaClosed, FiniteSets

VARIABLE dummy

S(str) == NFromStr(str)
\* |a - b| <= 1e-38 * max(1, mag)
Tiny == S("1e-38")
Near(a, b) == NLe(NAbs(NSub(NLeaf(a), NLeaf(b))), NMul(Tiny, NAdd(N1, NAbs(NLeaf(b)))))
NearZero(a, scale) == NLe(NAbs(NLeaf(a)), NMul(Tiny, NAdd(N1, NAbs(NLeaf(scale)))))

\* ---------------------------------------------------------------- MasaReal: reference values, identities
RealChecks == <<
  <<"sin(1)", Near(NSinL(N1), S("0.8414709848078965066525023216302989996225630607983710656727517"))>>,
  <<"cos(1)", Near(NCosL(N1), S("0.5403023058681397174009366074429766037323104206179222276700973"))>>,
  <<"exp(1)", Near(NExpL(N1), S("2.718281828459045235360287471352662497757247093699959574966968"))>>,
  <<"log(2)", Near(NLogL(NFromInt(2)), S("0.6931471805599453094172321214581765680755001343602552541206800"))>>,
  <<"pi", Near(NPi, S("3.141592653589793238462643383279502884197169399375105820974944"))>>,
  <<"sqrt(2)", Near(NSqrtL(NFromInt(2)), S("1.414213562373095048801688724209698078569671875376948073176680"))>>,
  <<"2^0.5", Near(NPowL(NFromInt(2), S("0.5")), NSqrtL(NFromInt(2)))>>,
  <<"3^-4", Near(NPowL(NFromInt(3), NNeg(NFromInt(4))), NFromRat(1, 81))>>,
  <<"sin(100)", Near(NSinL(NFromInt(100)), S("-0.5063656411097587936565576104597854320650327212953921286558504"))>>,
  <<"exp(-30.5)", Near(NExpL(S("-30.5")), S("5.67568523263272246187278872380665127714771085120751161713262e-14"))>>,
  <<"log(1e-7)", Near(NLogL(S("1e-7")), S("-16.1180956509583197881259401827905494532077104204014108322333"))>>,
  <<"erf(0.5)", Near(NErfL(S("0.5")), S("0.52049987781304653768274665389196452873645157575796370005880573"))>>,
  <<"erf(1)", Near(NErfL(N1), S("0.8427007929497148693412206350826092592960669979663029084599379"))>>,
  <<"erf(-3.5)", Near(NErfL(S("-3.5")), S("-0.99999925690162765858725447631624390436427933990782720253740889"))>>,
  <<"erf(6)", Near(NErfL(NFromInt(6)), S("0.99999999999999997848026328750108688340664960081261536952248594"))>>,
  <<"erf(0.001)", Near(NErfL(S("0.001")), S("0.0011283787909692363799484776569048125992468632126466421387975624"))>>,
  <<"erf(9.25)", Near(NErfL(S("9.25")), S("0.99999999999999999999999999999999999999579796278508028886546751"))>>,
  <<"erf(20)", Near(NErfL(NFromInt(20)), N1) /\ Near(NErfL(NFromInt(0)), N0)>>,
  <<"asin(0.3)", Near(NAsinL(S("0.3")), S("0.304692654015397507972002961227529166954560031706776387392978"))>>,
  <<"sin2+cos2", Near(NAdd(NSq(NSinL(S("2.75"))), NSq(NCosL(S("2.75")))), N1)>>,
  <<"exp(log x)", Near(NExpL(NLogL(S("7.25"))), S("7.25"))>>,
  <<"hex float", Near(S("0x1.8p-1"), S("0.75")) /\ Near(S("-0xc.0e6ae147ae148p+10"), S("-0x1.81cd5c28f5c29p+13"))>>,
  <<"nonfinite", ~NIsFinite(S("nan")) /\ ~NIsFinite(S("-inf")) /\ NIsFinite(S("0x0p+0"))>>,
  <<"mag add", NLe(S("2.9"), NAbs(NSub(N1, NFromInt(2)))) = FALSE>> >>

\* ---------------------------------------------------------------- MasaJet: hand derivatives
x0 == S("0.75")  y0 == S("0.3")  z0 == S("-1.25")  t0 == S("0.5")
X == JVar(1, x0)  Y == JVar(2, y0)  Z == JVar(3, z0)  T == JVar(4, t0)
\* f = sin(x^2) exp(y):  f_x = 2x cos(x^2) e^y, f_xx = (2 cos(x^2) - 4x^2 sin(x^2)) e^y, f_xy = f_x, f_yy = f
F1 == JMul(JSin(JSq(X)), JExp(Y))
ey == NExpL(y0)  sx2 == NSinL(NSq(x0))  cx2 == NCosL(NSq(x0))
\* g = (x + 2y) / (1 + z^2) * t^3 ;  h = sqrt(x) * log(y + 2) ; q = (x y)^(2.5)
G1 == JMul(JDiv(JAdd(X, JScale(N2, Y)), JAdd(JConst(N1), JSq(Z))), JMul(T, JSq(T)))
zz == NAdd(N1, NSq(z0))
H1 == JMul(JSqrt(X), JLog(JAdd(Y, JConst(N2))))
Q1 == JPow(JMul(X, Y), S("2.5"))
JetChecks == <<
  <<"f", Near(JV(F1), NMul(sx2, ey))>>,
  <<"f_x", Near(JG(F1, 1), NMul(NMul(NMul(N2, x0), cx2), ey))>>,
  <<"f_y", Near(JG(F1, 2), JV(F1))>>,
  <<"f_xx", Near(JH(F1, 1, 1), NMul(NSub(NMul(N2, cx2), NMul(NMul(NFromInt(4), NSq(x0)), sx2)), ey))>>,
  <<"f_xy", Near(JH(F1, 1, 2), JG(F1, 1)) /\ Near(JH(F1, 2, 1), JG(F1, 1))>>,
  <<"f_yy", Near(JH(F1, 2, 2), JV(F1))>>,
  <<"f_z", NearZero(JG(F1, 3), N1) /\ NearZero(JH(F1, 3, 4), N1)>>,
  <<"g_t", Near(JG(G1, 4), NDiv(NMul(NMul(NFromInt(3), NSq(t0)), NAdd(x0, NMul(N2, y0))), zz))>>,
  <<"g_z", Near(JG(G1, 3), NNeg(NDiv(NMul(NMul(NMul(N2, z0), NAdd(x0, NMul(N2, y0))), NMul(t0, NSq(t0))), NSq(zz))))>>,
  <<"g_yt", Near(JH(G1, 2, 4), NDiv(NMul(NFromInt(6), NSq(t0)), zz))>>,
  <<"g_zz", Near(JH(G1, 3, 3),
               NMul(NMul(NAdd(x0, NMul(N2, y0)), NMul(t0, NSq(t0))),
                    NDiv(NSub(NMul(NFromInt(6), NSq(z0)), N2), NMul(zz, NSq(zz)))))>>,
  <<"h_x", Near(JG(H1, 1), NDiv(NLogL(NAdd(y0, N2)), NMul(N2, NSqrtL(x0))))>>,
  <<"h_xy", Near(JH(H1, 1, 2), NDiv(N1, NMul(NMul(N2, NSqrtL(x0)), NAdd(y0, N2))))>>,
  <<"h_yy", Near(JH(H1, 2, 2), NNeg(NDiv(NSqrtL(x0), NSq(NAdd(y0, N2)))))>>,
  <<"q_xy", Near(JH(Q1, 1, 2), NMul(S("6.25"), NPowL(NMul(x0, y0), S("1.5"))))>>,
  <<"JD", Near(JV(JD(F1, 1)), JG(F1, 1)) /\ Near(JG(JD(F1, 1), 2), JH(F1, 1, 2))>>,
  <<"poly", Near(JG(JPoly(<<N1, N2, NFromInt(3)>>, X), 1), NAdd(N2, NMul(NFromInt(6), x0)))>> >>

\* ---------------------------------------------------------------- heat
kap == S("0.7")  aa == S("1.3")  rhoc == S("2.5")  cpc == S("0.4")
\* T = exp(-(k/(rho cp)) a^2 t) sin(a x) cos(a y)... in one space dimension: decaying sine
HeatExact == JMul(JExp(JScale(NNeg(NMul(NDiv(kap, NMul(rhoc, cpc)), NSq(aa))), T)), JSin(JScale(aa, X)))
\* variable conductivity: T = x^2 + y, k = 1 + T: div(k grad T) = d/dx((1+T) 2x) + d/dy(1+T) = 2(1+T) + 4x^2 + 1
HeatVarT == JAdd(JSq(X), Y)
HeatChecks == <<
  <<"decaying sine", NearZero(HeatResidual(rhoc, JConst(cpc), JConst(kap), HeatExact), JV(HeatExact))>>,
  <<"k(T) = 1 + T", Near(HeatResidual(N0, JConst(N1), JAdd(JConst(N1), HeatVarT), HeatVarT),
                        NNeg(NAdd(NAdd(NMul(N2, NAdd(N1, JV(HeatVarT))), NMul(NFromInt(4), NSq(x0))), N1)))>>,
  <<"cp(T) T_t", Near(HeatResidual(rhoc, JAdd(JConst(N1), JMul(T, X)), JConst(N0), JMul(T, X)),
                     NMul(NMul(rhoc, NAdd(N1, NMul(t0, x0))), x0))>> >>

\* ---------------------------------------------------------------- Euler
gam == S("1.4")
\* entropy wave: rho = rho0 + A sin(k.(x - u t)), velocity and pressure uniform: exact for all five equations
u1 == S("0.8")  u2 == S("-0.35")  u3 == S("0.55")
Phase == JAdd(JAdd(JScale(S("1.1"), JSub(X, JScale(u1, T))), JScale(S("-0.7"), JSub(Y, JScale(u2, T)))), JScale(S("0.4"), JSub(Z, JScale(u3, T))))
Wave == [rho |-> JAdd(JConst(S("1.2")), JScale(S("0.3"), JSin(Phase))), u |-> <<JConst(u1), JConst(u2), JConst(u3)>>, p |-> JConst(S("0.9"))]
\* rigid rotation: u = -W y, v = W x, rho uniform, p = p0 + rho W^2 (x^2 + y^2)/2: steady, exact
Om == S("0.6")  r0 == S("1.3")
Vortex == [rho |-> JConst(r0), u |-> <<JScale(NNeg(Om), Y), JScale(Om, X), JConst(N0)>>,
           p |-> JAdd(JConst(S("2.0")), JScale(NMul(NMul(r0, NSq(Om)), Half), JAdd(JSq(X), JSq(Y))))]
EulerChecks == <<
  <<"wave mass", NearZero(EulerMass(Wave), N1)>>,
  <<"wave mom x", NearZero(EulerMom(Wave, 1), N1)>>, <<"wave mom y", NearZero(EulerMom(Wave, 2), N1)>>,
  <<"wave mom z", NearZero(EulerMom(Wave, 3), N1)>>, <<"wave energy", NearZero(EulerEnergy(Wave, gam), N1)>>,
  <<"vortex mass", NearZero(EulerMass(Vortex), N1)>>,
  <<"vortex mom x", NearZero(EulerMom(Vortex, 1), N1)>>, <<"vortex mom y", NearZero(EulerMom(Vortex, 2), N1)>>,
  <<"vortex energy", NearZero(EulerEnergy(Vortex, gam), N1)>> >>

\* ---------------------------------------------------------------- Navier-Stokes: Couette flow with viscous heating
muc == S("0.2")  kc == S("0.35")  Rg == S("1.7")  Uw == S("1.5")  hh == S("2.0")  pc == S("3.0")
CouU == JScale(NDiv(Uw, hh), Y)
\* k T'' + mu (u')^2 = 0
CouT == JAdd(JAdd(JConst(S("4.0")), JScale(S("0.25"), Y)), JScale(NNeg(NDiv(NMul(muc, NSq(NDiv(Uw, hh))), NMul(N2, kc))), JSq(Y)))
Couette == [rho |-> JDiv(JConst(pc), JScale(Rg, CouT)), u |-> <<CouU, JConst(N0), JConst(N0)>>, p |-> JConst(pc)]
CouMu == JConst(muc)
NSChecks == <<
  <<"couette mass", NearZero(EulerMass(Couette), N1)>>,
  <<"couette mom x", NearZero(NSMom(Couette, CouMu, StokesLambda(CouMu), 1), N1)>>,
  <<"couette mom y", NearZero(NSMom(Couette, CouMu, StokesLambda(CouMu), 2), N1)>>,
  <<"couette energy", NearZero(NSEnergy(Couette, gam, CouMu, StokesLambda(CouMu), JConst(kc), CouT), N1)>>,
  \* C20 between operators: with mu = k = 0 the Navier-Stokes residuals are the Euler ones (any field)
  <<"ns->euler mom", Near(NSMom(Wave, JConst(N0), JConst(N0), 2), EulerMom(Wave, 2))>>,
  <<"ns->euler energy", Near(NSEnergy(Vortex, gam, JConst(N0), JConst(N0), JConst(N0), Vortex.p), EulerEnergy(Vortex, gam))>>,
  \* a compressible, non-trivial stress: u = (x^2, 0, 0), mu = 1: tau_xx = (4/3) 2x, d/dx = 8/3
  <<"tau_xx,x", Near(JG(Tau([u |-> <<JSq(X), JConst(N0), JConst(N0)>>], JConst(N1), StokesLambda(JConst(N1)), 1, 1), 1), NFromRat(8, 3))>> >>

\* ---------------------------------------------------------------- cylindrical against Cartesian
\* an arbitrary smooth axisymmetric field, seen (a) in (r, z) by the cylindrical operators at (r, z) and
\* (b) in (x, y, z) by the Cartesian operators at (x, y, z) = (r, 0, z): radial momentum = x-momentum
rr == S("0.9")  zc == S("0.4")
AxF(R, ZZ, TT) == [rho |-> JAdd(JConst(S("1.5")), JScale(S("0.2"), JMul(JCos(R), JSin(ZZ)))),
                   ur  |-> JMul(JScale(S("0.4"), JSq(R)), JCos(JAdd(ZZ, TT))),
                   uz  |-> JAdd(JConst(S("0.7")), JScale(S("0.3"), JMul(JSin(R), JCos(ZZ)))),
                   p   |-> JAdd(JConst(S("2.0")), JScale(S("0.25"), JMul(JSin(R), JSin(JAdd(ZZ, TT)))))]
CylR == JVar(1, rr)  CylZ == JVar(2, zc)
CylA == AxF(CylR, CylZ, T)
Cyl  == [rho |-> CylA.rho, u |-> <<CylA.ur, CylA.uz, JConst(N0)>>, p |-> CylA.p]
CX == JVar(1, rr)  CY == JVar(2, N0)  CZ == JVar(3, zc)
\* r = sqrt(x^2 + y^2) (y enters only through y^2: regular at y = 0)
CarR == JSqrt(JAdd(JSq(CX), JSq(CY)))
CarA == AxF(CarR, CZ, T)
Car  == [rho |-> CarA.rho, u |-> <<JMul(CarA.ur, JDiv(CX, CarR)), JMul(CarA.ur, JDiv(CY, CarR)), CarA.uz>>, p |-> CarA.p]
AxMu == JConst(S("0.3"))
CarT == JDiv(Car.p, JScale(Rg, Car.rho))  CylT == JDiv(Cyl.p, JScale(Rg, Cyl.rho))
AxiChecks == <<
  <<"axi mass", Near(AxiMass(Cyl, CylR), EulerMass(Car))>>,
  <<"axi mom r", Near(AxiMom(Cyl, CylR, 1), EulerMom(Car, 1))>>,
  <<"axi mom z", Near(AxiMom(Cyl, CylR, 2), EulerMom(Car, 3))>>,
  <<"axi energy", Near(AxiEnergy(Cyl, CylR, gam), EulerEnergy(Car, gam))>>,
  <<"axi ns mom r", Near(AxiNSMomR(Cyl, CylR, AxMu), NSMom(Car, AxMu, StokesLambda(AxMu), 1))>>,
  <<"axi ns mom z", Near(AxiNSMomZ(Cyl, CylR, AxMu), NSMom(Car, AxMu, StokesLambda(AxMu), 3))>>,
  <<"axi ns energy", Near(AxiNSEnergy(Cyl, CylR, gam, AxMu, JConst(kc), CylT), NSEnergy(Car, gam, AxMu, StokesLambda(AxMu), JConst(kc), CarT))>>,
  \* the recorded variant of the known finding is NOT the axisymmetric Navier-Stokes operator
  <<"variant differs", ~Near(VarAxiNSMomR(Cyl, CylR, AxMu), AxiNSMomR(Cyl, CylR, AxMu))>> >>

\* ---------------------------------------------------------------- Laplace, Burgers, SA closure
BU == JMul(JMul(X, Y), T)  BV == JAdd(X, Y)
OtherChecks == <<
  <<"harmonic", NearZero(Laplacian(JSub(JSq(X), JSq(Y))), N1) /\ Near(Laplacian(JMul(JSq(X), JSq(Y))), NMul(N2, NAdd(NSq(x0), NSq(y0))))>>,
  \* u = x y t, v = x + y: u_t + (uu)_x + (uv)_y = xy + 2 x y^2 t^2 + x t (x + 2y)
  <<"burgers u", Near(BurgersU(BU, BV, N0), NAdd(NAdd(NMul(x0, y0), NMul(NMul(N2, x0), NMul(NSq(y0), NSq(t0)))), NMul(NMul(x0, t0), NAdd(x0, NMul(N2, y0)))))>>,
  \* v_t + (uv)_x + (vv)_y = y t (2x + y) + 2(x + y)
  <<"burgers v", Near(BurgersV(BU, BV, N0), NAdd(NMul(NMul(y0, t0), NAdd(NMul(N2, x0), y0)), NMul(N2, NAdd(x0, y0))))>>,
  <<"burgers nu", Near(BurgersU(JMul(JSq(X), Y), JConst(N0), S("0.5")), NSub(NMul(NMul(NFromInt(4), NMul(x0, NSq(x0))), NSq(y0)), NMul(S("0.5"), NMul(N2, y0))))>>,
  <<"fv1", Near(JV(SAfv1(JConst(N2), NFromInt(3))), NFromRat(8, 35))>>,
  <<"fw(1) = 1", Near(SAfw(N1, S("0.3"), N2), N1)>>,
  \* nu = x, rho = 1, u = (1, 0, 0), mu = 0, sigma = 1, cb2 = 1/2: (rho nu u)_x - [ (x x')' + 1/2 ] = 1 - 1 - 1/2
  <<"sa transport", Near(FansNuResidual([rho |-> JConst(N1), u |-> <<JConst(N1), JConst(N0), JConst(N0)>>], X, JConst(N0), N1, Half, N0, N0), NNeg(Half))>> >>

\* ---------------------------------------------------------------- Sod: the computed states satisfy the jump conditions
SodG == S("1.4")
SodMu == NDiv(NSub(SodG, N1), NAdd(SodG, N1))
PS == SodPStar(SodG)
StL == SodState(SodG, SodMu, S("0.1"), S("0.5"))     \* between tail and contact
StR == SodState(SodG, SodMu, S("0.6"), S("0.5"))     \* between contact and shock
StF == SodState(SodG, SodMu, S("-0.3"), S("0.5"))    \* inside the fan (x/t = -0.6)
SS == StR.fronts[4]
cL == NSqrt(SodG)
SodChecks == <<
  <<"p* (gamma 1.4, p_R = 0.125)", Near(PS, S("0.324895940446946842240640071887337134201225979476791745125887"))>>,
  <<"regions", NLt(StF.fronts[1], StF.xi) /\ NLt(StF.xi, StF.fronts[2]) /\ NLt(StL.fronts[2], StL.xi) /\ NLt(StL.xi, StL.fronts[3])
               /\ NLt(StR.fronts[3], StR.xi) /\ NLt(StR.xi, SS)>>,
  <<"contact: same velocity", Near(StL.u, StR.u)>>,
  \* Rankine-Hugoniot across the shock (right state at rest): mass and momentum
  <<"RH mass", Near(NMul(StR.rho, NSub(StR.u, SS)), NMul(RhoR, NNeg(SS)))>>,
  <<"RH momentum", Near(NAdd(PS, NMul(StR.rho, NSq(NSub(StR.u, SS)))), NAdd(PR, NMul(RhoR, NSq(SS))))>>,
  <<"RH energy", Near(NAdd(NDiv(NMul(SodG, PS), NMul(NSub(SodG, N1), StR.rho)), NMul(Half, NSq(NSub(StR.u, SS)))),
                     NAdd(NDiv(NMul(SodG, PR), NMul(NSub(SodG, N1), RhoR)), NMul(Half, NSq(SS))))>>,
  \* isentropic left side: p / rho^gamma is the left value, and the Riemann invariant u + 2c/(gamma-1)
  <<"isentropic star", Near(NDiv(PS, NPow(StL.rho, SodG)), N1)>>,
  <<"invariant star", Near(NAdd(StL.u, NDiv(NMul(N2, NSqrt(NDiv(NMul(SodG, PS), StL.rho))), NSub(SodG, N1))), NDiv(NMul(N2, cL), NSub(SodG, N1)))>>,
  <<"invariant fan", Near(NAdd(StF.u, NDiv(NMul(N2, NSqrt(NMul(SodG, NPow(StF.rho, NSub(SodG, N1))))), NSub(SodG, N1))), NDiv(NMul(N2, cL), NSub(SodG, N1)))>>,
  <<"fan characteristic", Near(NSub(StF.u, NSqrt(NMul(SodG, NPow(StF.rho, NSub(SodG, N1))))), StF.xi)>> >>

\* ---------------------------------------------------------------- conjugate normal model
NormChecks == <<
  <<"pdf(0;0,1)", Near(NormalPdf(N0, N0, N1), S("0.3989422804014326779399460599343818684758586311649346576659258"))>>,
  <<"posterior ~ likelihood x prior",
      LET m == S("0.7") sg == S("1.3") sd == S("0.8") xb == S("1.9") n == 5
          mp == PostMean(n, xb, m, sg, sd) vp == PostVar(n, sg, sd)
          ratio(x) == NDiv(NormalPdf(x, mp, vp), NMul(NExp(LogLikelihood(x, n, xb, sd)), NormalPdf(x, m, NSq(sg))))
      IN  Near(ratio(S("0.3")), ratio(S("2.2")))>>,
  <<"moments", Near(CentralMoment(4, S("1.5")), NMul(NFromInt(3), NPow(S("1.5"), NFromInt(4)))) /\ Near(CentralMoment(6, N2), NFromInt(960))
               /\ NSign(CentralMoment(7, N2)) = 0 /\ Near(CentralMoment(0, N2), N1)>>,
  <<"mean", Near(Mean(<<N1, N2, NFromInt(6)>>), NFromInt(3))>> >>

AllChecks == RealChecks \o JetChecks \o HeatChecks \o EulerChecks \o NSChecks \o AxiChecks \o OtherChecks \o SodChecks \o NormChecks
Failed == {i \in 1..Len(AllChecks) : ~AllChecks[i][2]}
OracleOK == /\ \A i \in Failed : PrintT("ORACLE-CHECK FAILED: " \o AllChecks[i][1])
            /\ PrintT("ORACLE-CHECKS " \o ToString(Len(AllChecks)) \o " failed " \o ToString(Cardinality(Failed)))
            /\ Failed = {}

Init == dummy = 0
Next == UNCHANGED dummy
Spec == Init /\ [][Next]_dummy
=============================================================================
