------------------------------- MODULE MasaJet -------------------------------
(***************************************************************************************)
(* 2-jets in the four variables (x, y, z, t) over MasaReal numbers: value, gradient,   *)
(* Hessian.  A jet is <<v, g, h>>, g a 4-tuple, h the upper triangle of the symmetric  *)
(* Hessian as a 10-tuple in the order 11 12 13 14 22 23 24 33 34 44.                   *)
(* Product, quotient and chain rule are written once, here; every field of every       *)
(* solution is a composition of these operators and every governing operator reads     *)
(* derivatives off the components.  No formula of MASA is transcribed.                 *)
(*                                                                                     *)
(* TLC evaluates function constructors lazily and re-evaluates their body at every     *)
(* application; TLCEval forces each constructed tuple once.                            *)
(***************************************************************************************)
EXTENDS Naturals, Sequences, TLC, MasaReal

NV == 4
HI == <<1, 1, 1, 1, 2, 2, 2, 3, 3, 4>>
HJ == <<1, 2, 3, 4, 2, 3, 4, 3, 4, 4>>
\* index of the Hessian entry (i, j) in the 10-tuple
HK(i, j) == LET a == IF i <= j THEN i ELSE j
                b == IF i <= j THEN j ELSE i
            IN  CASE a = 1 -> b
                  [] a = 2 -> 3 + b
                  [] a = 3 -> 5 + b
                  [] a = 4 -> 10

N0 == NFromInt(0)
N1 == NFromInt(1)
Zero4  == <<N0, N0, N0, N0>>
Zero10 == <<N0, N0, N0, N0, N0, N0, N0, N0, N0, N0>>

\* scalar elementary functions with magnitude propagation (mag = |f| + |f'| mag(a))
NExp(a)  == LET e == NExpL(a) IN NFun(e, e, a)
NLog(a)  == NFun(NLogL(a), NLeaf(NDiv(N1, NLeaf(a))), a)
NSqrt(a) == LET s == NSqrtL(a) IN NFun(s, NLeaf(NDiv(N1, NMul(NFromInt(2), s))), a)
NPow(a, b) == LET x == NLeaf(a) bl == NLeaf(b)
              IN  NFun(NPowL(x, bl), NLeaf(NMul(bl, NPowL(x, NSub(bl, N1)))), a)
NSq(a)   == NMul(a, a)
NErf(a)  == NFun(NErfL(a), IF NLt(NAbsL(a), NFromInt(30)) THEN NLeaf(NMul(NDiv(NFromInt(2), NSqrtL(NPi)), NExpL(NNeg(NMul(NLeaf(a), NLeaf(a))))))
                                                       ELSE N0, a)

JV(a) == a[1]                       \* value
JG(a, i) == a[2][i]                 \* d/dx_i
JH(a, i, j) == a[3][HK(i, j)]       \* d2/dx_i dx_j

JConst(c) == <<c, Zero4, Zero10>>
\* the coordinate x_i with value c
JVar(i, c) == <<c, <<IF i = 1 THEN N1 ELSE N0, IF i = 2 THEN N1 ELSE N0, IF i = 3 THEN N1 ELSE N0, IF i = 4 THEN N1 ELSE N0>>, Zero10>>

Map4(F(_))  == TLCEval(<<F(1), F(2), F(3), F(4)>>)
Map10(F(_)) == TLCEval(<<F(1), F(2), F(3), F(4), F(5), F(6), F(7), F(8), F(9), F(10)>>)

JAdd(a, b) == LET G(i) == NAdd(a[2][i], b[2][i])
                  H(k) == NAdd(a[3][k], b[3][k])
              IN  <<NAdd(a[1], b[1]), Map4(G), Map10(H)>>
JSub(a, b) == LET G(i) == NSub(a[2][i], b[2][i])
                  H(k) == NSub(a[3][k], b[3][k])
              IN  <<NSub(a[1], b[1]), Map4(G), Map10(H)>>
JNeg(a)    == LET G(i) == NNeg(a[2][i])
                  H(k) == NNeg(a[3][k])
              IN  <<NNeg(a[1]), Map4(G), Map10(H)>>
\* multiplication by a number c
JScale(c, a) == LET G(i) == NMul(c, a[2][i])
                    H(k) == NMul(c, a[3][k])
                IN  <<NMul(c, a[1]), Map4(G), Map10(H)>>
\* Leibniz
JMul(a, b) ==
  LET G(i) == NAdd(NMul(a[2][i], b[1]), NMul(a[1], b[2][i]))
      H(k) == NAdd(NAdd(NMul(a[3][k], b[1]), NMul(a[1], b[3][k])),
                   NAdd(NMul(a[2][HI[k]], b[2][HJ[k]]), NMul(a[2][HJ[k]], b[2][HI[k]])))
  IN  <<NMul(a[1], b[1]), Map4(G), Map10(H)>>
\* chain rule: f(a) where f0 = f(val a) and f1, f2, f3 the first three derivatives of f at val a are leaf
\* numbers.  The derivative factors carry the conditioning of the argument too (mag |f_k| + |f_k+1| mag(a)):
\* near a zero of a derivative of f the rounding error of the argument dominates.
JChain(a, f0, f1, f2, f3) ==
  LET d1 == NFun(f1, f2, a[1])
      d2 == NFun(f2, f3, a[1])
      G(i) == NMul(d1, a[2][i])
      H(k) == NAdd(NMul(d1, a[3][k]), NMul(d2, NMul(a[2][HI[k]], a[2][HJ[k]])))
  IN  <<NFun(f0, f1, a[1]), Map4(G), Map10(H)>>

JSin(a) == LET s == NSinL(a[1]) c == NCosL(a[1]) IN JChain(a, s, c, NNeg(s), NNeg(c))
JCos(a) == LET s == NSinL(a[1]) c == NCosL(a[1]) IN JChain(a, c, NNeg(s), NNeg(c), s)
JExp(a) == LET e == NExpL(a[1]) IN JChain(a, e, e, e, e)
JLog(a) == LET x == NLeaf(a[1]) r == NLeaf(NDiv(N1, x)) r2 == NLeaf(NMul(r, r))
           IN  JChain(a, NLogL(a[1]), r, NNeg(r2), NLeaf(NMul(NFromInt(2), NMul(r2, r))))
\* a^b for a number b (any real exponent; a > 0 unless b is an integer)
JPow(a, b) ==
  LET x  == NLeaf(a[1])
      bl == NLeaf(b)
      b1 == NSub(bl, N1)
      b2 == NSub(bl, NFromInt(2))
      b3 == NSub(bl, NFromInt(3))
  IN  JChain(a, NPowL(x, bl), NLeaf(NMul(bl, NPowL(x, b1))), NLeaf(NMul(NMul(bl, b1), NPowL(x, b2))),
             NLeaf(NMul(NMul(NMul(bl, b1), b2), NPowL(x, b3))))
JSqrt(a) == JPow(a, NFromRat(1, 2))
JRecip(a) == JPow(a, NNeg(N1))
JDiv(a, b) == JMul(a, JRecip(b))
JSq(a) == JMul(a, a)

\* the derivative d/dx_i of a 2-jet as a 1-jet: value and gradient are exact, the Hessian slot is
\* not available (third derivatives) and is filled with zeros -- never read it
JD(a, i) == LET G(j) == a[3][HK(i, j)] IN <<a[2][i], Map4(G), Zero10>>

\* polynomial c[1] + c[2] a + c[3] a^2 + ... (Horner), c a sequence of numbers
RECURSIVE JPolyFrom(_, _, _)
JPolyFrom(c, a, k) == IF k = Len(c) THEN JConst(c[k])
                      ELSE JAdd(JConst(c[k]), JMul(a, JPolyFrom(c, a, k + 1)))
JPoly(c, a) == JPolyFrom(c, a, 1)
=============================================================================
