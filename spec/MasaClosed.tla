------------------------------- MODULE MasaClosed -------------------------------
(***************************************************************************************)
(* Closed-form exact solutions (C08), written from the textbook statements:            *)
(*  - the self-similar solution of the Riemann problem for the Euler equations with a  *)
(*    left rarefaction, a contact and a right shock (Toro, ch. 4), for the left/right  *)
(*    states of MASA's sod_1d: (rho, u, p) = (1, 0, 1) and (0.125, 0, 0.125)            *)
(*  - the conjugate normal model: normal prior N(m, sigma^2), n observations with      *)
(*    known standard deviation sigma_d, normal posterior                                *)
(***************************************************************************************)
EXTENDS MasaJet

RhoL == N1  PL == N1
RhoR == NFromRat(1, 8)  PR == NFromRat(1, 8)

\* pressure function f(p) = f_L(p) + f_R(p) (u_L = u_R = 0): zero at the star pressure
SodF(p, g) ==
  LET cl  == NSqrt(NDiv(NMul(g, PL), RhoL))
      gm1 == NSub(g, N1)
      gp1 == NAdd(g, N1)
      fl  == NMul(NDiv(NMul(NFromInt(2), cl), gm1), NSub(NPow(NDiv(p, PL), NDiv(gm1, NMul(NFromInt(2), g))), N1))
      ar  == NDiv(NFromInt(2), NMul(gp1, RhoR))
      br  == NMul(NDiv(gm1, gp1), PR)
      fr  == NMul(NSub(p, PR), NSqrt(NDiv(ar, NAdd(p, br))))
  IN  NAdd(fl, fr)
\* bisection on [lo, hi] (f(lo) < 0 < f(hi)), n halvings
RECURSIVE Bisect(_, _, _, _)
Bisect(lo, hi, g, n) ==
  IF n = 0 THEN NLeaf(NMul(NFromRat(1, 2), NAdd(lo, hi)))
  ELSE LET mid == NLeaf(NMul(NFromRat(1, 2), NAdd(lo, hi)))
       IN  IF NSign(SodF(mid, g)) < 0 THEN Bisect(mid, hi, g, n - 1) ELSE Bisect(lo, mid, g, n - 1)
SodPStar(g) == Bisect(PR, PL, g, 150)

\* density and velocity at (x, t), t > 0; WaveDist: distance of x/t from the nearest wave front
\* mu2: the parameter "mu" of sod_1d, (gamma-1)/(gamma+1) as set by the caller (DESIGN.md 4.5)
SodState(g, mu2, x, t) ==
  LET ps  == SodPStar(g)
      cl  == NSqrt(NDiv(NMul(g, PL), RhoL))
      cr  == NSqrt(NDiv(NMul(g, PR), RhoR))
      gm1 == NSub(g, N1)
      gp1 == NAdd(g, N1)
      us  == NMul(NDiv(NMul(NFromInt(2), cl), gm1), NSub(N1, NPow(NDiv(ps, PL), NDiv(gm1, NMul(NFromInt(2), g)))))
      rsl == NMul(RhoL, NPow(NDiv(ps, PL), NDiv(N1, g)))
      pr  == NDiv(ps, PR)
      rsr == NMul(RhoR, NDiv(NAdd(pr, mu2), NAdd(NMul(mu2, pr), N1)))
      S   == NMul(cr, NSqrt(NAdd(NMul(NDiv(gp1, NMul(NFromInt(2), g)), pr), NDiv(gm1, NMul(NFromInt(2), g)))))
      csl == NMul(cl, NPow(NDiv(ps, PL), NDiv(gm1, NMul(NFromInt(2), g))))
      head == NNeg(cl)
      tail == NSub(us, csl)
      xi  == NDiv(x, t)
      fanrho == NMul(RhoL, NPow(NSub(NDiv(NFromInt(2), gp1), NMul(NDiv(gm1, NMul(gp1, cl)), xi)), NDiv(NFromInt(2), gm1)))
      fanu   == NMul(NDiv(NFromInt(2), gp1), NAdd(cl, xi))
  IN  [fronts |-> <<head, tail, us, S>>, xi |-> xi,
       rho |-> IF NLt(xi, head) THEN RhoL ELSE IF NLt(xi, tail) THEN fanrho ELSE IF NLt(xi, us) THEN rsl
               ELSE IF NLt(xi, S) THEN rsr ELSE RhoR,
       u   |-> IF NLt(xi, head) THEN N0 ELSE IF NLt(xi, tail) THEN fanu ELSE IF NLt(xi, S) THEN us ELSE N0]

\* ---------------------------------------------------------------- conjugate normal model
RECURSIVE SumSeq(_, _)
SumSeq(v, i) == IF i > Len(v) THEN N0 ELSE NAdd(v[i], SumSeq(v, i + 1))
Mean(v) == NDiv(SumSeq(v, 1), NFromInt(Len(v)))
NormalPdf(x, m, s2) ==
  NDiv(NExp(NNeg(NDiv(NSq(NSub(x, m)), NMul(NFromInt(2), s2)))), NSqrt(NMul(NMul(NFromInt(2), NPi), s2)))
PostVar(n, sigma, sigmad) == NDiv(N1, NAdd(NDiv(N1, NSq(sigma)), NDiv(NFromInt(n), NSq(sigmad))))
PostMean(n, xbar, m, sigma, sigmad) ==
  NMul(PostVar(n, sigma, sigmad), NAdd(NDiv(m, NSq(sigma)), NDiv(NMul(NFromInt(n), xbar), NSq(sigmad))))
LogLikelihood(x, n, xbar, sigmad) == NNeg(NDiv(NMul(NFromInt(n), NSq(NSub(x, xbar))), NMul(NFromInt(2), NSq(sigmad))))
\* (k-1)!! for even k
RECURSIVE DoubleFact(_)
DoubleFact(k) == IF k <= 1 THEN N1 ELSE NMul(NFromInt(k), DoubleFact(k - 2))
CentralMoment(k, sigma) == IF k % 2 = 1 THEN N0 ELSE NMul(NPow(sigma, NFromInt(k)), DoubleFact(k - 1))
=============================================================================
