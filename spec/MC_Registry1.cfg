SPECIFICATION Spec
CONSTANTS
  MCPrec = {"d"}
  Handles = {"h1", "h2"}
  MCBuild = "exc"
  EmitEdges = FALSE
  TestDefaultOn = TRUE
  Lite = FALSE
  EmitOneIn = 1
VIEW View
INVARIANTS TypeOK SelValid HeapExact RegSound
PROPERTIES Isolation PrecIndependent SelSticky SelMoves EvalPure FatalIntact FatalOnlyIfMisuse NoUseBeforeInit ReinitFresh SetThenGet
CHECK_DEADLOCK FALSE
