---------------------------------- MODULE Masa ----------------------------------
(***************************************************************************************)
(* MASA as a state machine.                                                            *)
(*                                                                                     *)
(* The library is a sequential object: two independent registries (one per scalar     *)
(* type) mapping verbatim handle strings to owned solution instances, a current        *)
(* selection per registry, and per instance a scalar-parameter map and a               *)
(* vector-parameter map.  Every public API function is one action; its linearization   *)
(* point is its return (or the exit()/throw it ends in).  An action takes the          *)
(* *observable outcome* of the call as an argument and states the relation between     *)
(* pre-state, arguments, outcome and post-state:                                       *)
(*   - the bounded instances (the MC_Registry modules) quantify the outcome existentially over    *)
(*     the finite set of outcomes the relation admits, so TLC enumerates every         *)
(*     interleaving of every call;                                                     *)
(*   - the trace specification (MasaTrace) binds arguments and outcome to one logged   *)
(*     event of the real library, so a step of the implementation is accepted exactly  *)
(*     when it is a step of this specification.                                        *)
(*                                                                                     *)
(* The C entry points (extern "C") and the Fortran bind(C) views are the same actions  *)
(* with p = "d": that identification *is* property C17.                                *)
(***************************************************************************************)
EXTENDS Naturals, Sequences, FiniteSets, TLC, MasaNames

CONSTANTS
  Prec,            \* scalar types, subset of {"d", "ld"}
  Catalog,         \* sequence of catalogue entries (MasaCatalog!Catalog or an abstract one)
  Build,           \* "exit": masa_exit terminates with status 1;  "exc": it throws the integer 1
  Marker(_),       \* Marker(p): the uninitialised-parameter value (-12345.67) in precision p
  Sentinel(_),     \* Sentinel(p): the unprovided-evaluator value (-1.33)
  NoSuchParam(_),  \* NoSuchParam(p): masa_get_param of an unknown name (-20)
  One(_),          \* One(p): the number 1 (what the self-test fixture's init_var stores)
  DispAccept(_, _, _),  \* DispAccept(p, v, s): is s what masa_display_param prints for the stored value v (16 digits)?
  InitDflt,        \* initial knowledge of default values (see dflt)
  UseMemo,         \* BOOLEAN: record evaluations in memo (history variable)
  \* value oracle: EvalAccept(p, sol, par, vec, fn, sig, args, cb, ret) -- is ret an acceptable result
  \* of the provided evaluator <<fn,sig>> of solution sol with current parameter values par, vec at
  \* args?  (bounded instances: an uninterpreted term; trace specification: the numeric oracle)
  EvalAccept(_,_,_,_,_,_,_,_,_),
  \* ArgsRegular(sol, fn, sig, args): the arguments are regular for this overload (e.g. a gradient
  \* direction inside 1..dimension); only then is a finite result demanded at default parameters
  ArgsRegular(_,_,_,_)

VARIABLES
  reg,     \* [Prec -> [registered handles -> Instance]]
  sel,     \* [Prec -> handle or None]
  live,    \* [Prec -> Nat]  solution objects alive on the heap
  status,  \* "run" or "exited"
  dflt,    \* [Prec -> [solution name -> [par: [name -> value or Unk], vec: [name -> seq or Unk]]]]
           \* default values are an unknown-but-fixed function of (precision, solution): no listed
           \* property fixes the ~1000 numbers, but every masa_init / masa_init_param must
           \* reproduce the same ones; the first observation binds them
  memo,    \* history: evaluation key -> first result seen (purity: same key => same bits)
  act      \* history: the action just taken, with its outcome

vars == <<reg, sel, live, status, dflt, memo, act>>

None == "$none"     \* no selection
Dflt == "$dflt"     \* parameter token: "the default value of this parameter"
Unk  == "$unk"      \* a default value not yet observed
DfltV == <<Dflt>>   \* the same two tokens for vector parameters (sequences compare with sequences)
UnkV  == <<Unk>>

---------------------------------------------------------------------------------------
(* Catalogue access *)
CatIdx      == 1..Len(Catalog)
CatNames    == {Catalog[i].name : i \in CatIdx}
Entry(n)    == Catalog[CHOOSE i \in CatIdx : Catalog[i].name = n]
Pars(n)     == Entry(n).pars
Vecs(n)     == Entry(n).vecs
IsFixture(n) == Entry(n).fixture
Provides(n, fn, sig)  == <<fn, sig>> \in Entry(n).caps
ProbeOnly(n, fn, sig) == <<fn, sig>> \in Entry(n).fcaps

\* the catalogue name a solution string resolves to, or None
Resolve(cs) ==
  LET n == NormCodes(cs)
      hit == {i \in CatIdx : Catalog[i].codes = n}
  IN  IF hit = {} THEN None ELSE Catalog[CHOOSE i \in hit : TRUE].name

---------------------------------------------------------------------------------------
(* Instances *)
\* A solution constructor registers every parameter (value: the marker) and then calls init_var(), which
\* stores the defaults.  The constructors of the two self-test fixtures do NOT call init_var(): their
\* parameters start as the marker.  broken: the fixture masa_test_function is "designed to fail" -- its
\* init_var() sets one parameter to 1, fails to set an unknown one, fails to register a duplicate, bumps
\* the registration count by hand and returns 2; from then on masa_sanity_check of THAT object is a fatal
\* error (registration count mismatch).  Entry(n).initp = [ret, one, breaks] describes init_var of a
\* fixture; for every other entry init_var stores the defaults and returns 0.
Fresh(p, n) == [sol |-> n, par |-> [k \in Pars(n) |-> IF IsFixture(n) THEN Marker(p) ELSE Dflt],
                vec |-> [k \in Vecs(n) |-> DfltV], broken |-> FALSE]

Target(p)   == reg[p][sel[p]]
HasSel(p)   == sel[p] # None
\* current value of scalar parameter k of instance inst in precision p (may be Unk)
ParVal(p, inst, k) == IF inst.par[k] = Dflt THEN dflt[p][inst.sol].par[k] ELSE inst.par[k]
VecVal(p, inst, k) == IF inst.vec[k] = DfltV THEN dflt[p][inst.sol].vec[k] ELSE inst.vec[k]

\* parameters that count as uninitialised / vectors that count as empty.  An unobserved default is
\* neither: C14 requires every non-fixture entry to be sane right after masa_init.
Unset(p, inst)    == {k \in Pars(inst.sol) : ParVal(p, inst, k) = Marker(p)}
EmptyVecs(p, inst) == {k \in Vecs(inst.sol) : VecVal(p, inst, k) = <<>>}

---------------------------------------------------------------------------------------
(* Outcomes.  o.end: how the call ended; o.tags: which diagnostics appeared on stdout. *)
Returned(o) == o.end = "ret"
FatalEnd    == IF Build = "exc" THEN "throw1" ELSE "exit1"
IsFatalOutcome(o) == o.end = FatalEnd /\ "FATAL" \in o.tags
Quiet(o)    == o.tags \cap {"FATAL", "ERROR", "SERROR"} = {}
Complains(o) == o.tags \cap {"ERROR", "SERROR"} # {} /\ "FATAL" \notin o.tags

\* A fatal error: diagnostic, then exit(1) or throw 1.  In the exception build the registry, the
\* selection and every parameter are exactly as before (C16); in the exit build the process is gone.
Fatal(o) ==
  /\ IsFatalOutcome(o)
  /\ UNCHANGED <<reg, sel, live, dflt, memo>>
  /\ status' = IF Build = "exc" THEN "run" ELSE "exited"

Note(name, p, api, args, o) ==
  /\ status = "run"                  \* a terminated process takes no further step
  /\ act' = [name |-> name, p |-> p, api |-> api, args |-> args, o |-> o]

---------------------------------------------------------------------------------------
(* Registry actions *)

\* masa_init(handle, solution string given as character codes)
Init(p, api, h, cs, o) ==
  /\ Note("init", p, api, <<h, cs>>, o)
  /\ LET n == Resolve(cs) IN
     IF n = None
     THEN Fatal(o)                               \* registers nothing (C13)
     ELSE /\ Returned(o) /\ o.ret = 0 /\ Quiet(o)
          /\ reg' = [reg EXCEPT ![p] = [x \in DOMAIN reg[p] \cup {h} |-> IF x = h THEN Fresh(p, n) ELSE reg[p][x]]]
          /\ sel' = [sel EXCEPT ![p] = h]
          \* the replaced instance and every rejected candidate are released (C19)
          /\ live' = [live EXCEPT ![p] = Cardinality(DOMAIN reg[p] \cup {h})]
          /\ UNCHANGED <<status, dflt, memo>>

\* masa_select_mms(handle): handles are compared verbatim
Select(p, api, h, o) ==
  /\ Note("select", p, api, <<h>>, o)
  /\ IF h \in DOMAIN reg[p]
     THEN /\ Returned(o) /\ o.ret = 0 /\ Quiet(o)
          /\ sel' = [sel EXCEPT ![p] = h]
          /\ UNCHANGED <<reg, live, status, dflt, memo>>
     ELSE Fatal(o)

\* masa_list_mms(): works without a selection; o.out is the printed list of [h, s] records
List(p, api, o) ==
  /\ Note("list", p, api, <<>>, o)
  /\ Returned(o) /\ o.ret = 0 /\ Quiet(o)
  /\ Len(o.out) = Cardinality(DOMAIN reg[p])
  /\ {<<o.out[i].h, o.out[i].s>> : i \in 1..Len(o.out)} = {<<h, reg[p][h].sol>> : h \in DOMAIN reg[p]}
  /\ UNCHANGED <<reg, sel, live, status, dflt, memo>>

\* masa_printid(): the catalogue, in registration order, identical in both precisions (C14)
PrintId(p, api, o) ==
  /\ Note("printid", p, api, <<>>, o)
  /\ Returned(o) /\ o.ret = 0 /\ Quiet(o)
  /\ o.out = [i \in CatIdx |-> Catalog[i].name]
  /\ UNCHANGED <<reg, sel, live, status, dflt, memo>>

\* masa_get_name / masa_get_dimension
GetName(p, api, o) ==
  /\ Note("name", p, api, <<>>, o)
  /\ IF HasSel(p)
     THEN /\ Returned(o) /\ o.ret = 0 /\ Quiet(o) /\ o.v = Target(p).sol
          /\ UNCHANGED <<reg, sel, live, status, dflt, memo>>
     ELSE Fatal(o)

GetDim(p, api, o) ==
  /\ Note("dim", p, api, <<>>, o)
  /\ IF HasSel(p)
     THEN /\ Returned(o) /\ o.ret = 0 /\ Quiet(o) /\ o.v = Entry(Target(p).sol).dim
          /\ UNCHANGED <<reg, sel, live, status, dflt, memo>>
     ELSE Fatal(o)

---------------------------------------------------------------------------------------
(* Parameter store (C11).  The store of the two self-test fixtures is the same map (it lives in the base
   class); what differs is their init_var (InitParam) and its consequence for Sanity. *)
WithTarget(p, inst) == [reg EXCEPT ![p][sel[p]] = inst]

SetParam(p, api, k, v, o) ==
  /\ Note("setp", p, api, <<k, v>>, o)
  /\ IF ~HasSel(p) THEN Fatal(o) ELSE
     /\ Returned(o)
     /\ IF k \in Pars(Target(p).sol)
        THEN /\ Quiet(o)
             /\ reg' = WithTarget(p, [Target(p) EXCEPT !.par[k] = v])
        ELSE /\ Complains(o)                      \* unknown name: nothing changes
             /\ UNCHANGED reg
     /\ UNCHANGED <<sel, live, status, dflt, memo>>

\* masa_get_param: reading a default that has not been observed yet binds it
GetParam(p, api, k, o) ==
  /\ Note("getp", p, api, <<k>>, o)
  /\ IF ~HasSel(p) THEN Fatal(o) ELSE
     /\ Returned(o)
     /\ IF k \in Pars(Target(p).sol)
        THEN /\ Quiet(o)
             /\ IF ParVal(p, Target(p), k) = Unk
                THEN dflt' = [dflt EXCEPT ![p][Target(p).sol].par[k] = o.ret]
                ELSE o.ret = ParVal(p, Target(p), k) /\ UNCHANGED dflt
        ELSE /\ Complains(o) /\ o.ret = NoSuchParam(p) /\ UNCHANGED dflt
     /\ UNCHANGED <<reg, sel, live, status, memo>>

\* masa_init_param: every scalar and vector parameter back to its default; returns 0
InitParam(p, api, o) ==
  /\ Note("initp", p, api, <<>>, o)
  /\ IF ~HasSel(p) THEN Fatal(o) ELSE
     /\ Returned(o)
     /\ IF IsFixture(Target(p).sol)
        THEN LET fi == Entry(Target(p).sol).initp IN
             /\ o.ret = fi.ret
             \* the failing init_var prints "MASA ERROR" (unknown name) and "MASA FATAL ERROR" (duplicate
             \* registration) -- and RETURNS
             /\ IF fi.ret = 0 THEN Quiet(o) ELSE {"FATAL", "ERROR"} \subseteq o.tags
             /\ reg' = WithTarget(p, [Target(p) EXCEPT
                                       !.par = [k \in DOMAIN @ |-> IF k \in fi.one THEN One(p) ELSE @[k]],
                                       !.broken = @ \/ fi.breaks])
        ELSE /\ o.ret = 0 /\ Quiet(o)
             /\ reg' = WithTarget(p, Fresh(p, Target(p).sol))
     /\ UNCHANGED <<sel, live, status, dflt, memo>>

\* masa_purge_default_param: every scalar parameter becomes the marker; vectors are untouched
Purge(p, api, o) ==
  /\ Note("purge", p, api, <<>>, o)
  /\ IF ~HasSel(p) THEN Fatal(o) ELSE
     /\ Returned(o) /\ o.ret = 0 /\ Quiet(o)
     /\ reg' = WithTarget(p, [Target(p) EXCEPT !.par = [k \in Pars(Target(p).sol) |-> Marker(p)]])
     /\ UNCHANGED <<sel, live, status, dflt, memo>>

\* masa_sanity_check: 0 exactly when nothing is unset/empty; one warning per offender (o.warn)
Sanity(p, api, o) ==
  /\ Note("sanity", p, api, <<>>, o)
  /\ IF ~HasSel(p) THEN Fatal(o)
     ELSE IF Target(p).broken THEN Fatal(o)        \* the fixture's deliberate registration-count mismatch
     ELSE
     /\ Returned(o) /\ Quiet(o)
     /\ LET bad == Unset(p, Target(p)) \cup EmptyVecs(p, Target(p)) IN
        /\ o.ret = IF bad = {} THEN 0 ELSE 1
        /\ ("WARNING" \in o.tags) <=> (bad # {})
        /\ o.warn = bad
     /\ UNCHANGED <<reg, sel, live, status, dflt, memo>>

\* masa_set_vec / masa_set_array: whole-sequence replacement, any length
SetVec(p, api, k, v, o) ==
  /\ Note("setv", p, api, <<k, v>>, o)
  /\ IF ~HasSel(p) THEN Fatal(o) ELSE
     /\ Returned(o)
     /\ IF k \in Vecs(Target(p).sol)
        THEN /\ Quiet(o)
             /\ reg' = WithTarget(p, [Target(p) EXCEPT !.vec[k] = v])
        ELSE /\ Complains(o) /\ UNCHANGED reg
     /\ UNCHANGED <<sel, live, status, dflt, memo>>

\* masa_get_vec / masa_get_array: status 0 and a copy (o.v, length o.n), or status 1
GetVec(p, api, k, o) ==
  /\ Note("getv", p, api, <<k>>, o)
  /\ IF ~HasSel(p) THEN Fatal(o) ELSE
     /\ Returned(o)
     /\ IF k \in Vecs(Target(p).sol)
        THEN /\ Quiet(o) /\ o.ret = 0 /\ o.n = Len(o.v)
             /\ IF VecVal(p, Target(p), k) = UnkV
                THEN dflt' = [dflt EXCEPT ![p][Target(p).sol].vec[k] = o.v]
                ELSE o.v = VecVal(p, Target(p), k) /\ UNCHANGED dflt
        ELSE /\ Complains(o) /\ o.ret = 1 /\ UNCHANGED dflt
             \* C++: the caller's vector is left untouched (the driver pre-fills 3 elements);
             \* C: the wrapper hands back the untouched empty vector, i.e. length 0 (C17)
             /\ o.n = IF api = "c" THEN 0 ELSE 3
     /\ UNCHANGED <<reg, sel, live, status, memo>>

\* masa_display_param: one line per scalar parameter; "Uninitialized" exactly for the marker
DisplayParam(p, api, o) ==
  /\ Note("dispp", p, api, <<>>, o)
  /\ IF ~HasSel(p) THEN Fatal(o) ELSE
     /\ Returned(o) /\ o.ret = 0 /\ Quiet(o)
     /\ Len(o.out) = Cardinality(Pars(Target(p).sol))
     /\ {o.out[i].k : i \in 1..Len(o.out)} = Pars(Target(p).sol)
     /\ \A i \in 1..Len(o.out) :
          LET pv == ParVal(p, Target(p), o.out[i].k) IN
          /\ (o.out[i].v = "Uninitialized") <=> (pv = Marker(p))
          \* the printed number is the stored value (an unobserved default is not judged)
          /\ IF o.out[i].v = "Uninitialized" \/ pv = Unk THEN TRUE ELSE DispAccept(p, pv, o.out[i].v)
     /\ UNCHANGED <<reg, sel, live, status, dflt, memo>>

\* masa_display_vec / masa_display_array: one line per vector parameter with its length
DisplayVec(p, api, o) ==
  /\ Note("dispv", p, api, <<>>, o)
  /\ IF ~HasSel(p) THEN Fatal(o) ELSE
     /\ Returned(o) /\ o.ret = 0 /\ Quiet(o)
     /\ Len(o.out) = Cardinality(Vecs(Target(p).sol))
     /\ {o.out[i].k : i \in 1..Len(o.out)} = Vecs(Target(p).sol)
     /\ \A i \in 1..Len(o.out) :
          LET v == VecVal(p, Target(p), o.out[i].k) IN v = UnkV \/ o.out[i].n = Len(v)
     /\ UNCHANGED <<reg, sel, live, status, dflt, memo>>

---------------------------------------------------------------------------------------
(* Evaluators (C10, C14, C15 and, through EvalAccept, C01-C09) *)

\* everything a result may depend on (C10): precision, solution, current parameters, overload, arguments
EvalKey(p, inst, fn, sig, args, cb) == <<p, inst.sol, inst.par, inst.vec, fn, sig, args, cb>>

Eval(p, api, fn, sig, args, cb, o) ==
  /\ Note("eval", p, api, <<fn, sig, args, cb>>, o)
  /\ IF ~HasSel(p) THEN Fatal(o) ELSE
     LET inst == Target(p)
         key  == EvalKey(p, inst, fn, sig, args, cb)
     IN
     /\ Returned(o)                                   \* never terminates the process
     /\ UNCHANGED <<reg, sel, live, status, dflt>>     \* never changes a parameter (C10, C15)
     /\ IF Provides(inst.sol, fn, sig)
        THEN /\ o.ret # Sentinel(p)                    \* C14
             /\ (inst = Fresh(p, inst.sol) /\ ArgsRegular(inst.sol, fn, sig, args)) => o.fin   \* C14: finite at defaults
             /\ EvalAccept(p, inst.sol, [k \in DOMAIN inst.par |-> ParVal(p, inst, k)],
                           [k \in DOMAIN inst.vec |-> VecVal(p, inst, k)], fn, sig, args, cb, o.ret)
             /\ IF UseMemo
                THEN IF key \in DOMAIN memo
                     THEN memo[key] = o.ret /\ UNCHANGED memo         \* bit-for-bit the same
                     ELSE memo' = [x \in DOMAIN memo \cup {key} |-> IF x = key THEN o.ret ELSE memo[x]]
                ELSE UNCHANGED memo
        ELSE IF ProbeOnly(inst.sol, fn, sig)
        THEN UNCHANGED memo
        ELSE /\ o.ret = Sentinel(p)                    \* C15: fail safe
             /\ Complains(o)
             /\ UNCHANGED memo

---------------------------------------------------------------------------------------
(* Auxiliary entry points *)

\* masa_test_poly: the polynomial self-test of the selected solution object; 0 = passed
TestPoly(p, api, o) ==
  /\ Note("testpoly", p, api, <<>>, o)
  /\ IF ~HasSel(p) THEN Fatal(o) ELSE
     /\ Returned(o) /\ o.ret = 0 /\ Quiet(o)
     /\ UNCHANGED <<reg, sel, live, status, dflt, memo>>

\* masa_get_numeric_version / masa_version_stdout: no solution needed, nothing changes
Version(p, api, o, numeric) ==
  /\ Note("version", p, api, <<>>, o)
  /\ Returned(o) /\ o.ret = numeric /\ o.ret2 = 0 /\ Quiet(o)
  /\ UNCHANGED <<reg, sel, live, status, dflt, memo>>

\* pass_func(f, a): calls the caller's function once, on the selected solution object, and returns its value;
\* accept is the trace specification's judgement of the returned value against f(a)
PassFunc(p, api, o, accept) ==
  /\ Note("passfunc", p, api, <<>>, o)
  /\ IF ~HasSel(p) THEN Fatal(o) ELSE
     /\ Returned(o) /\ Quiet(o) /\ o.ncb = 1 /\ accept
     /\ UNCHANGED <<reg, sel, live, status, dflt, memo>>

\* masa_test_default(v): ALWAYS terminates the process -- status 1 when v is the uninitialised marker or the
\* sentinel, status 0 otherwise; no diagnostic, no solution needed
\* (special: v is the marker or the sentinel -- decided by the instance, whose value domains differ)
TestDefault(p, api, v, special, o) ==
  /\ Note("testdefault", p, api, <<v>>, o)
  /\ o.end = IF special THEN "exit1" ELSE "exit0"
  /\ Quiet(o)
  /\ status' = "exited"
  /\ UNCHANGED <<reg, sel, live, dflt, memo>>

---------------------------------------------------------------------------------------
\* A new process: empty registries, nothing selected.  What is known about defaults carries over
\* (they are a fixed function of the library, not of the process).
Restart ==
  /\ reg'    = [p \in Prec |-> <<>>]
  /\ sel'    = [p \in Prec |-> None]
  /\ live'   = [p \in Prec |-> 0]
  /\ status' = "run"
  /\ memo'   = <<>>
  /\ act'    = [name |-> "start"]
  /\ UNCHANGED dflt

Init0 ==
  /\ reg    = [p \in Prec |-> <<>>]
  /\ sel    = [p \in Prec |-> None]
  /\ live   = [p \in Prec |-> 0]
  /\ status = "run"
  /\ dflt   = InitDflt
  /\ memo   = <<>>
  /\ act    = [name |-> "start"]

---------------------------------------------------------------------------------------
(* Properties.  State invariants: *)
SelValid  == \A p \in Prec : sel[p] = None \/ sel[p] \in DOMAIN reg[p]
HeapExact == \A p \in Prec : live[p] = Cardinality(DOMAIN reg[p])                      \* C19
RegSound  == \A p \in Prec : \A h \in DOMAIN reg[p] :
                /\ reg[p][h].sol \in CatNames
                /\ DOMAIN reg[p][h].par = Pars(reg[p][h].sol)
                /\ DOMAIN reg[p][h].vec = Vecs(reg[p][h].sol)

(* Action properties (each is [][InProc => (...)]_vars); they speak about the calls of one process, so the
   Restart step is exempt: *)
ActP == act'.p
InProc == act'.name # "start"
\* C12: a call never changes an instance other than the one that is its target afterwards,
\* never unregisters a handle, and never touches the other precision
Isolation ==
  [][InProc => (\A p \in Prec : \A h \in DOMAIN reg[p] :
        /\ h \in DOMAIN reg'[p]
        /\ (p # ActP \/ h # sel'[p]) => reg'[p][h] = reg[p][h])]_vars
PrecIndependent ==
  [][InProc => (\A p \in Prec : p # ActP => reg'[p] = reg[p] /\ sel'[p] = sel[p] /\ live'[p] = live[p])]_vars
SelSticky == [][InProc => (\A p \in Prec : sel[p] # None => sel'[p] # None)]_vars
\* only init and select move the selection
SelMoves  == [][InProc => (\A p \in Prec : sel'[p] # sel[p] => act'.name \in {"init", "select"} /\ ActP = p)]_vars
\* C10/C15: evaluation changes nothing
EvalPure  == [][InProc => (act'.name = "eval" => UNCHANGED <<reg, sel, live>>)]_vars
\* C16
FatalIntact == [][InProc => (IsFatalOutcome(act'.o) => UNCHANGED <<reg, sel, live>>)]_vars
FatalOnlyIfMisuse ==
  [][InProc => (IsFatalOutcome(act'.o) =>
        \/ act'.name \notin {"init", "select", "list", "printid", "version", "testdefault"} /\ sel[ActP] = None
        \/ act'.name = "select" /\ act'.args[1] \notin DOMAIN reg[ActP]
        \/ act'.name = "init" /\ Resolve(act'.args[2]) = None
        \* named deviation: the self-test fixture that corrupted its own registration count on purpose
        \/ act'.name = "sanity" /\ sel[ActP] # None /\ reg[ActP][sel[ActP]].broken)]_vars
NoUseBeforeInit ==
  [][InProc => (act'.name \notin {"init", "select", "list", "printid", "version", "testdefault", "start"} /\ sel[ActP] = None => IsFatalOutcome(act'.o))]_vars
\* C12: re-initialising replaces by a fresh default instance and makes it the target
ReinitFresh ==
  [][InProc => (act'.name = "init" /\ Returned(act'.o) =>
        /\ sel'[ActP] = act'.args[1]
        /\ reg'[ActP][act'.args[1]] = Fresh(ActP, Resolve(act'.args[2])))]_vars
\* C11: set then get
SetThenGet ==
  [][InProc => (act'.name = "getp" /\ act.name = "setp" /\ act.p = ActP /\ Returned(act'.o) /\ Returned(act.o)
        /\ act.args[1] = act'.args[1] /\ Quiet(act.o) => act'.o.ret = act.args[2])]_vars
=============================================================================
