------------------------------- MODULE MasaReal -------------------------------
(***************************************************************************************)
(* Real numbers for the value oracle.  TLC has no reals; the operators below are       *)
(* implemented by the Java class MasaReal (a TLC module override, the mechanism the    *)
(* CommunityModules use).  The TLA+ bodies here are only placeholders that make the    *)
(* module parse; the intended meaning is stated as axioms in the comments and is       *)
(* cross-checked by MC_Oracle.tla (identities, reference values).                       *)
(*                                                                                     *)
(* A number N is a pair (val, mag):                                                    *)
(*   val  a real, carried to 45 significant decimal digits                             *)
(*   mag  >= |val|: the sum of the absolute values of the terms val was formed from,   *)
(*        i.e. the natural scale of the rounding error of ANY floating-point           *)
(*        evaluation of the same expression (used only for tolerances, section 7):     *)
(*           leaf x            mag = |x|                                               *)
(*           a + b, a - b      mag = mag(a) + mag(b); |a +- b| when both are exact     *)
(*                             inputs (one correctly rounded operation)                *)
(*           a * b             mag = |a| mag(b) + |b| mag(a) - |a b|   (first order:   *)
(*           a / b             mag = mag(a)/|b| + |a| mag(b)/b^2 - |a/b|   relative     *)
(*                                   inflations r = mag/|val| ADD: r_a + r_b - 1)      *)
(*           f(a)              mag = |f(a)| + |f'(a)| * mag(a)      (NFun)             *)
(* Numbers are opaque to the specification: only the operators below inspect them.     *)
(***************************************************************************************)
EXTENDS Naturals

NFromStr(s)    == <<s>>        \* C99 hex float (%a / %La), decimal literal; "nan"/"inf" give a non-finite N
NFromInt(i)    == <<i>>
NFromRat(p, q) == <<p, q>>     \* the rational p/q
NPi            == <<"pi">>
NIsFinite(a)   == TRUE

NAdd(a, b) == <<a, b>>         \* val(a)+val(b)
NSub(a, b) == <<a, b>>
NMul(a, b) == <<a, b>>
NDiv(a, b) == <<a, b>>         \* val(b) # 0
NNeg(a)    == <<a>>

\* "leaf" elementary functions: val = f(val(a)), mag = |f(val(a))|
NSinL(a)    == <<a>>
NCosL(a)    == <<a>>
NExpL(a)    == <<a>>
NLogL(a)    == <<a>>           \* val(a) > 0
NErfL(a)    == <<a>>           \* the error function 2/sqrt(pi) int_0^a exp(-s^2) ds
NSqrtL(a)   == <<a>>           \* val(a) >= 0
NPowL(a, b) == <<a, b>>        \* val(a)^val(b); integer b for any a, otherwise val(a) > 0
NAbsL(a)    == <<a>>
NAbs(a)     == <<a>>           \* |val(a)| with the magnitude of a kept
NAsinL(a)   == <<a>>           \* |val(a)| < 1
NLeaf(a)    == <<a>>           \* val(a) with mag reset to |val(a)|
\* the value f0 = f(a) whose derivative at a is f1: val = val(f0), mag = |val(f0)| + |val(f1)| * mag(a)
NFun(f0, f1, a) == <<f0, f1, a>>

NLt(a, b) == TRUE              \* val(a) < val(b)
NLe(a, b) == TRUE
NSign(a)  == 0                 \* -1, 0, 1

\* NClose(got, exp, k, p): |val(got) - val(exp)| <= 2^k * u_p * mag(exp),  u_d = 2^-53, u_ld = 2^-64
NClose(got, exp, k, p) == TRUE
\* NCloseTo(a, b, scale, k, p): |val(a) - val(b)| <= 2^k * u_p * mag(scale)
NCloseTo(a, b, scale, k, p) == TRUE
\* ceil(log2(|val(got) - val(exp)| / (u_p * mag(exp)))); -99 when the values are equal
NErrBits(got, exp, p) == 0
NToStr(a) == "?"
=============================================================================
