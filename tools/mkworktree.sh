#!/bin/bash
# mkworktree.sh <dir>: scratch git worktree of /repo with the (untracked) autotools build system copied in,
# configured and built, ready for `make check`.  Remove with: git -C /repo worktree remove --force <dir>
set -e
d=$1
git -C /repo worktree add -q --detach "$d" HEAD
cd /repo
# copy the generated build system (untracked in git), not objects
rsync -a --ignore-existing --exclude .git --exclude '*.o' --exclude '*.lo' --exclude '*.la' --exclude .libs --exclude .deps \
      --exclude 'config.status' --exclude 'config.log' --exclude 'Makefile' --exclude 'libtool' --exclude 'stamp-h1' --exclude config.h \
      --exclude 'src/masa.h' --exclude 'autom4te.cache' --exclude '*.log' --exclude '*.trs' \
      --include '*/' --include 'configure' --include 'Makefile.in' --include 'aclocal.m4' --include 'build-aux/**' --include 'config.h.in' \
      --include 'm4/**' --exclude '*' /repo/ "$d"/
cd "$d"
./configure -q >/dev/null 2>&1
make -j8 >/dev/null 2>&1
echo "$d ready"
