#!/usr/bin/env python3
"""Regenerate MANIFEST.json from the table below (kept next to the checks it describes)."""
import json, os, subprocess
V = os.path.dirname(os.path.dirname(os.path.abspath(__file__)))
props = [json.loads(l) for l in open(os.path.join(V, 'properties.jsonl'))]
hooks = subprocess.run(['git', '-C', '/repo', 'log', '--format=%H %s'], stdout=subprocess.PIPE, text=True).stdout.splitlines()
hook_commits = [l.split()[0] for l in hooks if l.split(' ', 1)[1].startswith('verif hook')]

TRUST = 'TLC 1.8; harness/driver.cpp (logs arguments, results, stdout tags, hook counter); the frozen catalogue spec/catalog.json'
TRUSTN = TRUST + '; spec/MasaReal.java (40-digit real arithmetic, cross-checked by MC_Oracle)'
VAL = 'The value an evaluator returns is the result of the Eval action of Masa.tla; the trace specification judges every logged result against MasaOracle.tla: the documented field as a jet (MasaJet) and the governing operator (MasaPDE) applied to it at 45 digits, tolerance 2^14 u_p mag. The environment moves too (errno and the floating-point flags are disturbed between assignments: a stuttering step of the specification). Inputs are sampled (seeded random parameter assignments with every parameter drawn independently, points in a box, both precisions); the oracle is independent of the implementation (no MASA formula is transcribed).'
C = {
 'C01': ('exploration', VAL + ' 12 heat solutions.', 'TLA+ trace validation with a numeric oracle (jets + heat operator) of randomized value histories', '6 C01'),
 'C02': ('exploration', VAL + ' 8 Euler-family solutions incl. the cylindrical forms.', 'TLA+ trace validation with a numeric oracle (jets + Euler operators)', '6 C02'),
 'C03': ('exploration', VAL + ' 5 viscous solutions; the six axisymmetric evaluators that are known findings are judged against their recorded variant system.', 'TLA+ trace validation with a numeric oracle (jets + Navier-Stokes operators, power-law transport)', '6 C03'),
 'C04': ('exploration', VAL + ' laplace_2d and burgers_equation.', 'TLA+ trace validation with a numeric oracle (jets + Laplace/Burgers operators)', '6 C04'),
 'C05': ('exploration', VAL + ' rans_sa and the two FANS-SA solutions; three free-shear evaluators are known findings judged against their recorded variant.', 'TLA+ trace validation with a numeric oracle (jets + RANS/FANS Spalart-Allmaras closure)', '6 C05'),
 'C06': ('exploration', VAL + ' euler_chem_1d with named callbacks.', 'TLA+ trace validation with a numeric oracle (jets + two-species reacting Euler operator)', '6 C06'),
 'C07': ('exploration', VAL + ' every grad_* evaluator, direction indices around the valid range.', 'TLA+ trace validation with a numeric oracle (jet gradients of the documented fields)', '6 C07'),
 'C08': ('exploration', 'sod_1d is judged against the exact Riemann solution and cp_normal against the conjugate-normal formulas, both written in MasaClosed.tla and evaluated at 45 digits during trace validation; sampled inputs.', 'TLA+ trace validation with closed-form oracles (exact Riemann solver, conjugate normal model)', '6 C08'),
 'C09': ('exploration', 'All C01-C08 evaluations in both precisions with identical exactly representable inputs, rescaled transport coefficients and amplitudes; each result within 2^6 u_p mag (first-order running error scale) of the 45-digit oracle, and the history variable acc of MasaTrace demands that the long double error distribution (in long double roundoffs) is not shifted above the double one (in double roundoffs).', 'TLA+ trace validation: 45-digit oracle + accuracy statistics history variable', '6 C09'),
 'C10': ('exploration', 'Trace validation with the history variable memo of Masa.tla: identical (precision, solution, parameters, overload, arguments) must give bit-identical results across arbitrary interleaved calls and across two processes running the phases in opposite order, and sweeps must read back unchanged parameters; seeded random histories on every non-fixture solution; thorough: plus the repository\'s own programs traced through the ld --wrap shim.', 'TLA+ trace validation (memo history variable) of randomized purity histories', '6 C10'),
 'C11': ('model_checking', 'The parameter store is the par/vec maps of Masa.tla. TLC enumerates the 1-handle bounded model (full alphabet, both self-test fixtures with their failing init_var) exhaustively; every transition is replayed on the real library and random store histories run on every catalogue entry; TLC validates every read-back against the specification map; evaluators-use-last-set-values is judged by the numeric oracle.', 'TLC bounded model + replay of every transition + trace validation', '6 C11'),
 'C12': ('model_checking', 'TLC explores all interleavings of every API action over 2 handles (3 thorough) and over both precisions (quick: reduced alphabet Lite; thorough: full); Isolation, PrecIndependent, ReinitFresh, SelValid etc. are checked on the model, every transition is replayed on the real library and validated against the specification, plus long random multi-handle histories; thorough: the three state invariants as an inductive invariant of the typed registry core (MasaRegistryInd.tla) discharged by Apalache for 8 handles and histories of any length.', 'TLC bounded model + replay of every transition + trace validation', '6 C12'),
 'C13': ('model_checking', 'MC_Names.tla enumerates every decoration (separator runs in up to two gaps x case masks) and every single-character negative of sampled base names and checks the normalisation against itself; every string is passed to masa_init and the outcome validated by Masa!Init/Resolve; separator runs of 64 to 4100 characters; random decorations and negatives of all 37 names.', 'TLC enumeration of name decorations + replay + trace validation', '6 C13'),
 'C14': ('model_checking', 'Finite domain enumerated completely: every printed name and every frozen catalogue entry, both precisions, every evaluator of the capability set; each call validated by Masa.tla actions (PrintId, Init, GetName, GetDim, Sanity, InitParam, Eval); plus re-initialisation of a handle with the same entry after a purge while another handle is current.', 'exhaustive enumeration of the catalogue, TLA+ trace validation', '6 C14'),
 'C15': ('exploration', 'All (solution, overload) pairs outside the capability set are enumerated (complete over pairs), arguments sampled, with a provider of the overload selected in the other precision and, in the same registry, the provider answering each overload first (first call of the overload in the process); Masa!Eval demands -1.33, an ERROR tag, normal return, unchanged state.', 'enumeration of all unprovided overloads + TLA+ trace validation', '6 C15'),
 'C16': ('model_checking', 'Every Fatal transition of the bounded model is executed in the exit() build (own process, exit status observed) and in the exception build (state swept after the caught int), incl. the two-precision model; unknown-handle spellings (empty, blank, other case, padded, 300 characters) are selected in four registry states through the three interfaces in both builds; FatalIntact / NoUseBeforeInit / FatalOnlyIfMisuse checked by TLC on model and traces.', 'TLC bounded model + replay of every fatal transition in both builds', '6 C16'),
 'C17': ('model_checking', 'C entry points are the same Masa.tla actions with p = d; bounded-model transitions replayed with C and C++ calls mixed at random, memo demands bit-identical values across the interfaces, statuses, array lengths and masa_get_name checked by the actions.', 'TLC bounded model replayed through mixed C/C++ calls + trace validation', '6 C17'),
 'C18': ('other', 'Static relation between masa.f90, masa.h.in, cmasa.cpp, masa.i and the built library, complete over all entries: MasaAbi.tla states the Fortran-C interoperability slot mapping and TLC evaluates it on tables extracted from the tree under test; the SWIG clause compares the header as a C caller sees it with the header as SWIG sees it (conditionals evaluated with SWIG defined) and admits no directive but %module and %include.', 'TLC evaluation of a calling-convention model over extracted interface tables', '6 C18'),
 'C19': ('model_checking', 'Bounded-model walks, random registry histories and init-order/vector-length histories run under three heap fill patterns with poisoned frees (traces validated with the hook counter bound to the specification heap: HeapExact, HeapStable; memo shared across patterns), under ASan+UBSan+LSan, and (thorough) Valgrind; the histories include calls made from an atexit handler registered before the first MASA call (late section), validated like any other event.', 'TLC bounded model replay under adversarial allocator + sanitizers, trace validation with heap binding', '6 C19'),
 'C20': ('exploration', 'Two handles in one process per reduction, paired evaluations; the history variable pairs of MasaTrace demands agreement of each pair within roundoff of the common operator and both sides are judged by the oracle; 22 reductions, sampled inputs.', 'TLA+ trace validation (pairs history variable + numeric oracle)', '6 C20'),
}
NA_REASON = 'check not built yet in this session (planned, see DESIGN.md section 11); no claim is made'

checks = []
for p in props:
    pid = p['id']
    if pid not in C:
        continue
    level, text, tech, ref = C[pid]
    checks.append(dict(property_id=pid, quick_cmd='python3 checks/run.py %s quick' % pid,
                       thorough_cmd='python3 checks/run.py %s thorough' % pid,
                       evidence_file='/verif/evidence/%s.json' % pid,
                       replay_cmd_template='python3 checks/replay_one.py {path}',
                       engine='masa-tla', level_claimed=dict(category=level, text=text, design_ref='DESIGN.md section ' + ref),
                       level_note='trusted: ' + (TRUSTN if pid in ('C01','C02','C03','C04','C05','C06','C07','C08','C09','C20') else TRUST),
                       technique=tech))
M = dict(version=1,
         setup_cmd='bash tools/setup.sh',
         hooks=dict(guard='MASA_VERIF', enable='harness/build.sh compiles src/*.cpp from the working tree with -DMASA_VERIF (variants exit, exc, san)',
                    baseline_off_cmd='bash tools/baseline_off.sh', source_commits=hook_commits, add_only=True),
         engines=[dict(name='masa-tla', path='/verif/spec', serves_properties=[c['property_id'] for c in checks],
                       kind_free_text='explicit TLA+ specification (Masa.tla) checked by TLC on bounded instances; bound to the code by replaying every model transition on the real library and validating every recorded call against the trace specification MasaTrace.tla')],
         checks=checks,
         not_applicable=[dict(property_id=p['id'], reason=NA_REASON) for p in props if p['id'] not in C],
         notes='see DESIGN.md; known_findings.json lists fixed and known findings; thorough tiers additionally validate the traces of the repository\'s own 66 test/example programs (unmodified, ld --wrap shim) against the same specification')
json.dump(M, open(os.path.join(V, 'MANIFEST.json'), 'w'), indent=1)
print('checks:', [c['property_id'] for c in checks])
