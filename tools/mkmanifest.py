#!/usr/bin/env python3
"""Regenerate MANIFEST.json from the table below (kept next to the checks it describes)."""
import json, os, subprocess
V = os.path.dirname(os.path.dirname(os.path.abspath(__file__)))
props = [json.loads(l) for l in open(os.path.join(V, 'properties.jsonl'))]
hooks = subprocess.run(['git', '-C', '/repo', 'log', '--format=%H %s'], stdout=subprocess.PIPE, text=True).stdout.splitlines()
hook_commits = [l.split()[0] for l in hooks if l.split(' ', 1)[1].startswith('verif hook')]

TRUST = 'TLC 1.8; harness/driver.cpp (logs arguments, results, stdout tags, hook counter); the frozen catalogue spec/catalog.json'
TRUSTN = TRUST + '; spec/MasaReal.java (40-digit real arithmetic, cross-checked by MC_Oracle)'
C = {
 'C10': ('exploration', 'Trace validation with the history variable memo of Masa.tla: identical (precision, solution, parameters, overload, arguments) must give bit-identical results across arbitrary interleaved calls, and sweeps must read back unchanged parameters; seeded random histories on every non-fixture solution.', 'TLA+ trace validation (memo history variable) of randomized purity histories', '6 C10'),
 'C11': ('model_checking', 'The parameter store is the par/vec maps of Masa.tla. TLC enumerates the 1-handle bounded model exhaustively; every transition is replayed on the real library and random store histories run on every catalogue entry; TLC validates every read-back against the specification map.', 'TLC bounded model + replay of every transition + trace validation', '6 C11'),
 'C12': ('model_checking', 'TLC explores all interleavings of every API action over 2 handles (3 thorough) and over both precisions; Isolation, PrecIndependent, ReinitFresh, SelValid etc. are checked on the model, every transition is replayed on the real library and validated against the specification, plus long random multi-handle histories.', 'TLC bounded model + replay of every transition + trace validation', '6 C12'),
 'C14': ('model_checking', 'Finite domain enumerated completely: every printed name and every frozen catalogue entry, both precisions, every evaluator of the capability set; each call validated by Masa.tla actions (PrintId, Init, GetName, GetDim, Sanity, InitParam, Eval).', 'exhaustive enumeration of the catalogue, TLA+ trace validation', '6 C14'),
 'C15': ('exploration', 'All (solution, overload) pairs outside the capability set are enumerated (complete over pairs), arguments sampled; Masa!Eval demands -1.33, an ERROR tag, normal return, unchanged state.', 'enumeration of all unprovided overloads + TLA+ trace validation', '6 C15'),
 'C16': ('model_checking', 'Every Fatal transition of the bounded model is executed in the exit() build (own process, exit status observed) and in the exception build (state swept after the caught int); FatalIntact / NoUseBeforeInit / FatalOnlyIfMisuse checked by TLC on model and traces.', 'TLC bounded model + replay of every fatal transition in both builds', '6 C16'),
 'C17': ('model_checking', 'C entry points are the same Masa.tla actions with p = d; bounded-model transitions replayed with C and C++ calls mixed at random, memo demands bit-identical values across the interfaces, statuses and masa_get_name checked by the actions.', 'TLC bounded model replayed through mixed C/C++ calls + trace validation', '6 C17'),
}
NA_REASON = 'check not built yet in this session (planned, see DESIGN.md section 11); no claim is made'

checks = []
for p in props:
    pid = p['id']
    if pid not in C:
        continue
    level, text, tech, ref = C[pid]
    checks.append(dict(property_id=pid, quick_cmd='python3 checks/run.py %s quick' % pid,
                       thorough_cmd='python3 checks/run.py %s thorough' % pid,
                       evidence_file='/verif/evidence/%s.json' % pid,
                       replay_cmd_template='python3 checks/replay_one.py {path}',
                       engine='masa-tla', level_claimed=dict(category=level, text=text, design_ref='DESIGN.md section ' + ref),
                       level_note='trusted: ' + (TRUSTN if pid in ('C01','C02','C03','C04','C05','C06','C07','C08','C09','C20') else TRUST),
                       technique=tech))
M = dict(version=1,
         setup_cmd='bash tools/setup.sh',
         hooks=dict(guard='MASA_VERIF', enable='harness/build.sh compiles src/*.cpp from the working tree with -DMASA_VERIF (variants exit, exc, san)',
                    baseline_off_cmd='bash tools/baseline_off.sh', source_commits=hook_commits, add_only=True),
         engines=[dict(name='masa-tla', path='/verif/spec', serves_properties=[c['property_id'] for c in checks],
                       kind_free_text='explicit TLA+ specification (Masa.tla) checked by TLC on bounded instances; bound to the code by replaying every model transition on the real library and validating every recorded call against the trace specification MasaTrace.tla')],
         checks=checks,
         not_applicable=[dict(property_id=p['id'], reason=NA_REASON) for p in props if p['id'] not in C],
         notes='see DESIGN.md; known_findings.json lists fixed and known findings')
json.dump(M, open(os.path.join(V, 'MANIFEST.json'), 'w'), indent=1)
print('checks:', [c['property_id'] for c in checks])
