#!/usr/bin/env python3
"""seed_sweep.py [ids...]: run, for every seeded change under /verif/seeded, the quick check of the property it
breaks against a scratch worktree of /repo with the change applied (never /repo itself); record which caught it."""
import json, os, subprocess, sys, time
V = '/verif'; WT = os.environ.get('SWEEP_WT', '/tmp/sweep-repo')
# the checks are run from a snapshot of /verif (SWEEP_CODE), so that editing /verif during a sweep cannot disturb it
CODE = os.environ.get('SWEEP_CODE', V)
ids = sys.argv[1:] or sorted(os.listdir(V + '/seeded'))
ids = [i for i in ids if os.path.isdir(V + '/seeded/' + i)]
subprocess.run(['git', '-C', '/repo', 'worktree', 'remove', '--force', WT], stderr=subprocess.DEVNULL)
subprocess.run(['git', '-C', '/repo', 'worktree', 'prune'])
subprocess.run(['git', '-C', '/repo', 'worktree', 'add', '-q', '--detach', WT, 'HEAD'], check=True)
env = dict(os.environ, VERIF_REPO=WT, VERIF_CACHE='/tmp/masa-verif-cache-' + os.path.basename(WT))
res = {}
try:
    for sid in ids:
        sd = V + '/seeded/' + sid
        meta = json.load(open(sd + '/meta.json'))
        prop = meta.get('property', sid[:3])[:3]
        key = sid
        extra = [] if os.environ.get('SWEEP_OWN_ONLY') else {'C01b': ['C11'], 'C02b': ['C10'], 'C05b': ['C10'], 'C04b': ['C10'], 'C06': ['C10'], 'C07': ['C10'], 'C08': ['C10'], 'C10b': ['C08'], 'C11b': ['C16'],
                 'C16': ['C12'], 'C16b': ['C12'], 'C20': ['C02'], 'C20b': ['C03'], 'C15b': ['C12'],
                 'R2-C10': ['C05'], 'R4-C06': ['C10'], 'R4-C08b': ['C11'], 'R4-C10b': ['C15'], 'R4-C12b': ['C17'], 'R4-C13': ['C16'], 'R4-C14': ['C16'], 'R4-C15': ['C11'], 'R4-C16': ['C17'], 'R4-C19': ['C17'],
                 'R4-C20': ['C11'], 'R4-C20b': ['C02'], 'R4-C01b': ['C10'], 'R4-C03': ['C10'], 'R4-C04': ['C10'], 'R4-C11': ['C12'], 'R4-C17b': ['C11'],
                 'R3-C01': ['C10'], 'R3-C01b': ['C09'], 'R3-C02': ['C10'], 'R3-C02b': ['C15', 'C14'], 'R3-C04': ['C10'], 'R3-C05b': ['C09'], 'R3-C06b': ['C10'],
                 'R3-C07': ['C15', 'C14'], 'R3-C08': ['C10'], 'R3-C14': ['C15'], 'R3-C14b': ['C17'], 'R3-C20': ['C10', 'C02'], 'R3-C20b': ['C09'], 'R2-C13b': ['C17'], 'R2-C09': ['C04'], 'R2-C09b': ['C03'], 'R2-C11b': ['C12'], 'R2-C12': ['C11']}.get(sid, [])
        subprocess.run(['git', '-C', WT, 'apply', sd + '/patch.diff'], check=True)
        out = {}
        for c in [prop] + extra:
            t = time.time()
            r = subprocess.run(['python3', CODE + '/checks/run.py', c, 'quick'], stdout=subprocess.PIPE, stderr=subprocess.STDOUT, text=True, cwd=CODE, env=dict(env, VERIF_EVIDENCE_DIR='/tmp/evidence-' + os.path.basename(WT)))
            first = [l.strip() for l in r.stdout.splitlines() if l.strip().startswith('rejected') or 'VIOLATION fortran' in l or 'VIOLATION header' in l or 'ended abnormally' in l or 'sanitizer report' in l][:1]
            out[c] = dict(rc=r.returncode, seconds=round(time.time() - t), first=(first[0][:400] if first else ''))
            print(sid, c, 'rc=%d' % r.returncode, '%ds' % out[c]['seconds'], (first[0][:200] if first else ''), flush=True)
        subprocess.run(['git', '-C', WT, 'checkout', '--', '.'], check=True)
        res[sid] = out
        meta = json.load(open(sd + '/meta.json'))
        meta.setdefault('checks_quick', {}).update({c: ('caught' if v['rc'] == 1 else 'missed' if v['rc'] == 0 else 'error') for c, v in out.items()})
        meta.setdefault('checks_detail', {}).update(out)
        json.dump(meta, open(sd + '/meta.json', 'w'), indent=1)
finally:
    subprocess.run(['git', '-C', '/repo', 'worktree', 'remove', '--force', WT])
old = {}
if sys.argv[1:] and os.path.exists(V + '/seeded/results.json'):
    old = json.load(open(V + '/seeded/results.json'))
old.update(res)
json.dump(old, open(V + '/seeded/results.json', 'w'), indent=1, sort_keys=True)
miss = [(s, c) for s, o in res.items() for c, v in o.items() if v['rc'] != 1 and c == json.load(open(V + '/seeded/' + s + '/meta.json')).get('property', s[:3])[:3]]
print('SWEEP DONE: %d seeds; own-property check missed or errored: %s' % (len(res), miss))
