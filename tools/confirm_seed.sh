#!/bin/bash
# confirm_seed.sh <seeddir>: in a fresh scratch worktree confirm that (1) the demo passes on the unchanged tree,
# (2) with patch.diff applied the library builds and `make -k check` still passes, (3) the demo then fails.
sd=$1; id=$(basename $sd); wt=/tmp/cw-$id
rm -rf $wt; git -C /repo worktree prune
/verif/tools/mkworktree.sh $wt >/dev/null 2>&1 || { echo "CONFIRM $id: worktree failed"; exit 2; }
res=""
( cd $sd && bash ./run_demo.sh $wt >/tmp/cw-$id.demo0.log 2>&1 ); r0=$?
( cd $wt && git apply $sd/patch.diff ) || { echo "CONFIRM $id: patch does not apply"; git -C /repo worktree remove --force $wt; exit 2; }
( cd $wt && make -j8 >/tmp/cw-$id.make.log 2>&1 ); rb=$?
( cd $wt && make -k check -j8 >/tmp/cw-$id.check.log 2>&1 ); rc=$?
pass=$(grep -E "^# PASS:" /tmp/cw-$id.check.log | tr -s ' ' | cut -d' ' -f3 | tr '\n' '+'); fail=$(grep -E "^# FAIL:" /tmp/cw-$id.check.log | tr -s ' ' | cut -d' ' -f3 | tr '\n' '+')
( cd $sd && bash ./run_demo.sh $wt >/tmp/cw-$id.demo1.log 2>&1 ); r1=$?
git -C /repo worktree remove --force $wt; git -C /repo worktree prune
ok=no; [ $r0 -eq 0 ] && [ $rb -eq 0 ] && [ $rc -eq 0 ] && [ $r1 -ne 0 ] && ok=yes
echo "CONFIRM $id: demo_unchanged_rc=$r0 build_rc=$rb check_rc=$rc pass=$pass fail=$fail demo_changed_rc=$r1 confirmed=$ok"
