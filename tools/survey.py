#!/usr/bin/env python3
"""survey.py sol[,sol...] [nassign] : which (solution, evaluator) pairs does the value oracle reject?
Iterates: every rejected pair is added to the skip list (the KNOWN mechanism of MasaOracle) and the
validation is repeated until the rest is accepted.  A diagnostic tool, not a check."""
import sys, time, os
sys.path.insert(0, os.path.join(os.path.dirname(os.path.abspath(__file__)), '..', 'checks'))
from common import *
import gen
from run import finding_key

sols = sys.argv[1].split(',')
nassign = int(sys.argv[2]) if len(sys.argv) > 2 else 2
kbits = sys.argv[3] if len(sys.argv) > 3 else '14'
rng = random.Random(seed())
execs = [gen.gen_values(rng, s, nassign=nassign, npts=2) for s in sols]
wd = workdir('survey')
run_executions(execs, wd)
known = []
while True:
    kf = os.path.join(wd, 'known.json')
    json.dump(known, open(kf, 'w'))
    n, rej = validate_executions(execs, wd, relax=('live', 'memo'), oracle=True, batch_lines=400, max_rejections=1000,
                                 extra_env={'KNOWN': kf, 'KBITS': kbits})
    new = 0
    for r in rej:
        k = finding_key(r)
        if r.reason == 'value' and [k['sol'], k['fn']] not in known:
            known.append([k['sol'], k['fn']]); new += 1
            ev = r.event
            print('REJECT', k['sol'], k['fn'], ev['p'], ev['a'], ev.get('di'), ev['dec'])
        elif r.reason != 'value':
            print('OTHER', k, json.dumps(r.event)[:300]);
    if not new:
        break
print('lines accepted in last round:', n)
print('rejected pairs:', json.dumps(known))
