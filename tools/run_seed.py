#!/usr/bin/env python3
"""run_seed.py <seeddir> <check> [<check>...]: apply the seeded change to /repo, run the given checks (quick),
undo the change, report which checks raised a violation."""
import json, os, subprocess, sys, time
sd = sys.argv[1]; checks = sys.argv[2:]
assert subprocess.run(['git', '-C', '/repo', 'status', '--porcelain', '--untracked-files=no'], stdout=subprocess.PIPE, text=True).stdout.strip() == '', '/repo not clean'
subprocess.run(['git', '-C', '/repo', 'apply', os.path.join(sd, 'patch.diff')], check=True)
res = {}
try:
    for c in checks:
        t = time.time()
        r = subprocess.run(['python3', '/verif/checks/run.py', c, 'quick'], stdout=subprocess.PIPE, stderr=subprocess.STDOUT, text=True, cwd='/verif')
        first = [l for l in r.stdout.splitlines() if 'rejected' in l or 'VIOLATION' in l or 'ERROR' in l][:2]
        res[c] = dict(rc=r.returncode, s=round(time.time() - t), first=[f[:300] for f in first])
        print(c, 'rc=%d' % r.returncode, '%ds' % res[c]['s'], first[0][:260] if first else '')
finally:
    subprocess.run(['git', '-C', '/repo', 'checkout', '--', '.'], check=True)
json.dump(res, open(os.path.join(sd, 'checks_result.json'), 'w'), indent=1)
