#!/usr/bin/env python3
"""Insert the table of seeded changes (from seeded/*/meta.json) into DESIGN.md between the SEEDTABLE markers."""
import json, os, re
V = os.path.dirname(os.path.dirname(os.path.abspath(__file__)))
rows = []
for sid in sorted(os.listdir(V + '/seeded')):
    p = V + '/seeded/' + sid + '/meta.json'
    if not os.path.exists(p):
        continue
    m = json.load(open(p))
    summ = re.sub(r'\s+', ' ', str(m.get('summary', ''))).replace('|', '/')
    needs = re.sub(r'\s+', ' ', str(m.get('needs', ''))).replace('|', '/')
    short = (summ[:150] + '…') if len(summ) > 150 else summ
    needs = (needs[:110] + '…') if len(needs) > 110 else needs
    cq = m.get('checks_quick', {})
    caught = ', '.join(c for c, v in cq.items() if v == 'caught') or '—'
    missed = ', '.join(c for c, v in cq.items() if v != 'caught')
    rows.append('| %s | %s | %s | %s | %s |' % (sid, short, needs, caught, missed or ''))
table = '\n<!-- SEEDTABLE-BEGIN -->\n| seed | change | needs | caught by (quick tier) | not caught by |\n|---|---|---|---|---|\n' + '\n'.join(rows) + '\n<!-- SEEDTABLE-END -->\n'
d = open(V + '/DESIGN.md').read()
if 'SEEDTABLE-BEGIN' in d:
    d = re.sub(r'\n<!-- SEEDTABLE-BEGIN -->.*?<!-- SEEDTABLE-END -->\n', lambda _: table, d, flags=re.S)
else:
    d = d.replace('\nSEEDTABLE\n', table)
open(V + '/DESIGN.md', 'w').write(d)
print(len(rows), 'rows')
