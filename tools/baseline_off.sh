#!/bin/bash
# hooks.baseline_off_cmd: the repository's own build and test suite with the guard OFF
# (MASA_VERIF is never defined by the repository's build system).
set -e
cd /repo
make -j16 >/dev/null 2>&1 || make
make -k check
