#!/usr/bin/env python3
"""finish_seed_meta.py <round>: complete the meta.json of the seeded changes of a round: origin, the confirmation line
written by tools/confirm_seed.sh (kept in .confirm next to it), and -- once -- the result of the first run of the checks
against the change (`first_run`), so that later re-sweeps with strengthened checks do not overwrite it."""
import glob, json, os, sys
rnd = int(sys.argv[1])
for d in sorted(glob.glob('/verif/seeded/R%d-*' % rnd)):
    mp = d + '/meta.json'
    m = json.load(open(mp))
    m['round'] = rnd
    m.setdefault('origin', 'round %d: written by an independent sub-agent that was given only the text of the property, the summaries of the earlier seeded changes for it, and a scratch worktree (nothing from /verif)' % rnd)
    cf = d + '/.confirm'
    if os.path.exists(cf):
        line = open(cf).read().strip()
        m['confirmed'] = dict(how='tools/confirm_seed.sh in a fresh scratch worktree of /repo HEAD: demo passes on the unchanged tree; with patch.diff applied the library builds, `make -k check -j8` passes with unchanged counts, and the demo fails',
                              result='confirmed' if 'confirmed=yes' in line else 'NOT confirmed', line=line)
        os.remove(cf)
    if 'first_run' not in m and m.get('checks_quick'):
        m['first_run'] = dict(checks_quick=dict(m['checks_quick']), note='result of the first run against this change, before the strengthenings it prompted (DESIGN.md section 11)')
    json.dump(m, open(mp, 'w'), indent=1)
    print(os.path.basename(d), m.get('confirmed', {}).get('result'), m.get('first_run', {}).get('checks_quick'))
