#!/bin/bash
# MANIFEST.setup_cmd: build the framework from files on disk only (offline).
set -e
cd "$(dirname "$0")/.."
# Java override of the real-number module (if present) and a parse of every specification module
if ls spec/*.java >/dev/null 2>&1; then
  javac -cp /opt/veriftools/tla/tla2tools.jar -d spec spec/*.java
fi
for m in Masa MasaTrace MC_Registry MC_Names MasaAbi MC_Oracle MasaRegistryInd; do
  (cd spec && tla-sany $m.tla >/dev/null) || { echo "SANY failed on $m"; exit 1; }
done
# the oracle validates itself (MC_Oracle: reference values, hand derivatives, exact solutions, jump conditions)
(cd spec && java -Xss256m -cp /opt/veriftools/tla/tla2tools.jar:/opt/veriftools/tla/CommunityModules-deps.jar:. tlc2.TLC -workers 1 -metadir "${TMPDIR:-/tmp}/masa-verif-cache/tlc-meta/setup$$" -config MC_Oracle.cfg MC_Oracle.tla > "${TMPDIR:-/tmp}/masa-verif-oracle.log" 2>&1; rm -rf "${TMPDIR:-/tmp}/masa-verif-cache/tlc-meta/setup$$"; grep -q "No error has been found" "${TMPDIR:-/tmp}/masa-verif-oracle.log") || { echo "MC_Oracle failed"; grep ORACLE "${TMPDIR:-/tmp}/masa-verif-oracle.log"; exit 1; }
# library variants and drivers from /repo's working tree (cached; checks rebuild when sources change)
python3 harness/mk.py driver exc >/dev/null
python3 harness/mk.py driver exit >/dev/null
python3 harness/mk.py driver exc alloc >/dev/null
python3 harness/mk.py driver san >/dev/null
echo setup ok
